"""C15 All entry points agree: CLI, file API and text API give the same bytes (clauses)."""

from ..report import Ctx
from ..rules import optflow, pure, write

EXPLANATION = (
    "Static decision of the structural clauses of C15: (R-OPTFLOW) on every call edge of the option chain "
    "argparse -> Options -> main -> reformat_files (every call site) -> reformat_file -> reformat_text -> "
    "fill_markdown/fill_text -> wrapper factories/renderer, the callee's parameter for option o is bound, positionally "
    "or by keyword, to exactly the caller's value of o (identity origins through reaching definitions: no swap, no "
    "drop to a default, no constant); (R-AUTO) the set of fields forced by --auto equals the set in the statement and "
    "each store is guarded only by the parsed flag; (R-CONSUMER) each switch directly controls exactly its consumer call; "
    "(R-SINK) all three sinks of reformat_file write exactly the value returned by reformat_text and the formatter gets "
    "exactly what was read; (R-USAGE) usage errors are raised before any write-capable call on every CFG path and map to "
    "non-zero exit constants in main; the up-front usage check quantifies over every file of the loop (membership / any), not one position; (R-WRITE-W8) after formatting, "
    "every normal path of reformat_file writes the result (an in-place 'unchanged' shortcut would keep CRLF bytes the other entry "
    "points normalise); (R-LOOPSTATE) the per-file loop carries no variable between iterations (liveness). "
    "Byte-identity of concrete outputs is not re-proved: it follows from identical bindings only together with C13."
)


def run(ctx: Ctx) -> None:
    ctx.rule("R-OPTFLOW", "callee parameter for option o receives exactly the caller's o on every call edge of the option chain")
    ctx.rule("R-AUTO", "--auto forces exactly {inplace,nobackup,semantic,cleanups,smartquotes,ellipses}, guarded only by the flag")
    ctx.rule("R-CONSUMER", "each switch directly controls exactly its consumer call (and the right rewriter is passed)")
    ctx.rule("R-SINK", "written value == value returned by reformat_text; formatter input == value read")
    ctx.rule("R-WRITE-W8", "after formatting, every normal path of reformat_file writes the result (file or stdout)")
    ctx.rule("R-USAGE", "usage errors precede every write-capable call on all paths; main maps them to non-zero exits")
    ctx.rule("R-LOOPSTATE", "no variable is live across iterations of the per-file loop")
    for _r, _t in (("R-PURE-S1", "no global / escaping-closure state"), ("R-PURE-S2", "no mutation of module-level objects"), ("R-PURE-S3", "no class-attribute state"),
                   ("R-PURE-S4", "cached functions return stateless objects"), ("R-PURE-S5", "stateful objects are allocated per call"),
                   ("R-PURE-S6", "no mutable defaults"), ("R-PURE-S7", "renderer fields initialised per instance")):
        ctx.rule(_r, _t + " (so the result for one file cannot depend on the files formatted before it)")
    ctx.run(optflow.check_parse_args)
    ctx.run(optflow.check_main_call)
    ctx.run(optflow.check_call_edges)
    ctx.run(optflow.check_sibling_sites)
    ctx.run(optflow.check_consumers)
    ctx.run(optflow.check_sinks)
    ctx.run(optflow.check_loop_state)
    ctx.run(write.check_usage_errors)
    ctx.run(write.check_result_always_written)
    # 'each file gets exactly the result it would get alone' also needs that no state survives a formatting call (C13's argument)
    ctx.run(pure.check_pure)
    ctx.assume("CPython argparse semantics for store_true / type=int / choices; dataclass __init__ binds keywords to fields by name")
    ctx.assume("C13 (call isolation) for 'each file gets the result it would get alone'")
