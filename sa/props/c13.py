"""C13 Each formatting call is isolated from other calls."""

from ..report import Ctx
from ..rules import pure

EXPLANATION = (
    "Confinement argument for C13 over every function reachable (call graph incl. function values, closures, render_* "
    "dispatch, constructors) from reformat_text / fill_markdown / fill_text / wrap_paragraph(_lines) / the wrapper "
    "factories: (S1) no global stores; nonlocal writes and mutation of captured variables only in closures that do not "
    "escape their defining call; (S2) no mutation of a module-level object, directly or through a local alias (identity "
    "origins); (S3) no class-attribute stores, no mutable class-level defaults; (S4) every @cache'd function returns an "
    "instance of a class without instance state; (S5) every stateful class (mutated after construction, or derived from "
    "marko Markdown/Parser/Renderer/Source) and every factory returning one is instantiated only at call time, never at "
    "import time, in a default argument, or inside a cached function, and never parked in a module-level location; the "
    "Markdown subclass rebuilds parser and renderer on every path of _setup_extensions; (S3b) no class of the package has a mutable class-level default (element subclasses are instantiated by marko); (S6) no mutable default arguments; "
    "(S7) every renderer field is initialised in __init__; thorough adds (S8) a scan of the marko modules on the parse/render "
    "path for process-wide state against a frozen, reasoned exemption list. If S1-S8 hold, every object mutated during a "
    "call is allocated by that call, so neither call history nor thread interleaving can influence a result."
)


def run(ctx: Ctx) -> None:
    ctx.rule("R-PURE-S1", "no global stores; closure state only in closures confined to their defining call")
    ctx.rule("R-PURE-S2", "no mutation of module-level objects (directly or through aliases) on the formatting path")
    ctx.rule("R-PURE-S3", "no class-attribute stores / mutable class-level defaults")
    ctx.rule("R-PURE-S4", "cached functions return stateless instances")
    ctx.rule("R-PURE-S5", "stateful objects are allocated per call (not at import, not cached, not parked globally); parser/renderer rebuilt per parse/render")
    ctx.rule("R-PURE-S6", "no mutable default arguments")
    ctx.rule("R-PURE-S7", "every renderer field is initialised in __init__")
    ctx.rule("R-PURE-S8", "marko modules on the parse/render path hold no process-wide mutable state beyond the frozen exemptions")
    ctx.run(pure.check_pure)
    if ctx.tier == "thorough":
        ctx.run(pure.check_marko_contract)
    ctx.assume("CPython functools.cache / re caches are semantically transparent; the GIL makes single bytecode stores atomic")
    ctx.assume("marko 2.2.4 as installed: per-parse state lives in Source/Document objects allocated inside Parser.parse")
