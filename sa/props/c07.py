"""C07 YAML frontmatter is passed through exactly and does not influence the body (structural clauses)."""

from ..report import Ctx
from ..rules import layout

EXPLANATION = (
    'Decided: in fill_markdown the frontmatter half of split_frontmatter is used only in presence tests and in the single final '
    'concatenation `frontmatter + <renderer output>`, which every return hands out; split_frontmatter dominates dedent / strip / tag '
    'preprocessing / parse / render; with frontmatter the formatted text is the content half only; the function, evaluated under "frontmatter present / absent", returns exactly frontmatter + renderer output / renderer output '
    'and hands the parser a text computed from the content half only (body independence); inside split_frontmatter a forward taint of the input shows the returned pieces are '
    "built only by an inverse pair split('\\n') / '\\n'.join plus CRLF->LF folding - splitlines(), strip on returned values, other "
    'replaces, regex rewrites are reported with their site; the two degenerate cases return the original text object. Not decided: '
    'the unclosed-frontmatter clause as a value property (an unclosed block gains one newline per run today - DESIGN.md §9).'
)


def run(ctx: Ctx) -> None:
    ctx.rule('R-FRONTMATTER', 'frontmatter reaches the result only through the final concatenation; split before any processing; body independence')
    ctx.rule('R-FRONTMATTER-verbatim', 'split_frontmatter builds its pieces by an inverse split/join pair only')
    ctx.rule('R-LAYOUT-Y5', 'the parser sees strip()+newline text on every path')
    ctx.rule('R-PREPARSE', 'tag/block spacing is forced before parsing')
    ctx.run(layout.check_parser_input)
    ctx.run(layout.check_frontmatter_order)
    ctx.run(layout.check_frontmatter_flow)
    ctx.run(layout.check_split_frontmatter)
