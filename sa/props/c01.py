"""C01 Formatting preserves the meaning of the document (structural clauses)."""

from ..report import Ctx
from ..rules import fence, hazard, layout, render

EXPLANATION = (
    "Structural necessary conditions of C01, decided over every element class the parser can instantiate (read from the "
    "marko sources and the repository's parser set-up) and every render method: (R-DISPATCH) each element type resolves to a "
    "render_<type> method; (R-FIELD) every semantic field of an element reaches the rendered text or the renderer state it "
    "is rendered under (slicing with helper summaries), children are iterated in document order; (R-DECISION) truth-table "
    "evaluation of the table-alignment chain (4 assignments -> 4 distinct constants with the colon on the right sides), "
    "soft/hard break, ordered/bullet marker; (R-PREFIX) typestate of the container prefix: P1 a line-starting block uses the "
    "pending prefix, loops use the continuation prefix, P2 consumes it on every path (must-pass-through, helper summaries), "
    "P3 containers restore it after their children, P5 an empty list item emits its own marker, P6 block text ends with a "
    "newline; (R-ENCODE) code-span delimiter sized from content, titles quote-escaped, destinations through an encoder, "
    "cells pipe-escaped, verbatim fields touched only by content-preserving operations (forward taint); (R-BOUND) fence "
    "length strictly above the longest fence-like run, same character scanned and emitted; (R-HAZARD) the first-word "
    "languages of marko's paragraph-interrupting block patterns (Glushkov automata of the dependency's own constants) are "
    "included in the language the line-start escaper rewrites, per shape class; (R-ESCAPE-SITE/ACTION) the escaper runs on "
    "the first word of every continuation line in Markdown mode on both wrapper chains and only inserts one backslash; "
    "(R-STATE) the renderer fields that accumulate the inline text of the current block (they decide whether `1\\.` keeps its "
    "backslash) are reset on every path before a paragraph / heading renders its children (typestate, through context-manager "
    "entry code and self-method calls). "
    "Not decided: that re-parsing the output yields the same tree for arbitrary input (round trip on runtime values)."
)


def run(ctx: Ctx) -> None:
    ctx.rule("R-DISPATCH", "every element type the parser can instantiate has a render method")
    ctx.rule("R-FIELD", "every semantic field of an element reaches the output; children in document order")
    ctx.rule("R-DECISION", "small decision tables are total and injective (alignment, break kind, marker kind)")
    ctx.rule("R-PREFIX-P1", "line-starting blocks use the pending prefix; repeated lines use the continuation prefix")
    ctx.rule("R-PREFIX-P2", "a leaf block consumes the pending prefix on every path to a non-empty return")
    ctx.rule("R-PREFIX-P3", "a container restores the prefix after its children on every path")
    ctx.rule("R-PREFIX-P5", "an empty list item emits its own marker")
    ctx.rule("R-PREFIX-P6", "rendered blocks are newline-terminated")
    ctx.rule("R-ENCODE-codespan", "code span delimiter is computed from the content's backtick runs")
    ctx.rule("R-ENCODE-title", "titles are emitted with inner double quotes escaped")
    ctx.rule("R-ENCODE-dest", "link/image destinations pass through an encoder, never the bare attribute")
    ctx.rule("R-ENCODE-cell", "table cell text has the pipe re-escaped")
    ctx.rule("R-ENCODE-verbatim", "only content-preserving operations between a verbatim field and the output")
    ctx.rule("R-BOUND", "emitted fence length >= longest fence-like run + 1, same fence character")
    ctx.rule("R-FENCE", "a fenced block ends where marko says: the closing test reads the source line, not a de-indented copy")
    ctx.rule("R-STATE", "per-block accumulators of the renderer are reset before a paragraph / heading renders its children")
    ctx.rule("R-HAZARD", "first-word language of each paragraph-interrupting block start is covered by the line-start escaper")
    ctx.rule("R-ESCAPE-SITE", "the escaper is applied to the first word of every continuation line in Markdown mode")
    ctx.rule("R-ESCAPE-ACTION", "the escaper returns the word or the word with a single backslash inserted")
    ctx.rule("R-HARDBREAK", "hard breaks are re-emitted as backslash + newline for every non-last segment")
    ctx.rule("R-PREPARSE", "tag/block spacing is forced before parsing")
    ctx.rule("R-LAYOUT-Y5", "the parser sees strip()+newline text on every path")
    ctx.rule("R-FRONTMATTER", "frontmatter is split off before any text processing")
    ctx.run(render.check_dispatch)
    ctx.run(render.check_fields)
    ctx.run(render.check_decisions)
    ctx.run(render.check_prefix)
    ctx.run(render.check_encode)
    ctx.run(render.check_fence_bound)
    ctx.run(fence.check_fence_parse)
    ctx.run(render.check_block_accumulators)
    ctx.run(hazard.check_hazards)
    ctx.run(hazard.check_escape_site)
    ctx.run(hazard.check_escaper_on_tokens)
    ctx.run(hazard.check_escape_action)
    ctx.run(layout.check_hard_break_decorator)
    ctx.run(layout.check_parser_input)
    ctx.assume("marko 2.2.4 as installed: element classes, get_type dispatch, block start patterns are read from its source text")
    ctx.assume("regex approximations enlarge languages only (look-arounds dropped, ASCII model of \\d \\s \\w); hazards are reported per shape class")
