"""C01 Formatting preserves the meaning of the document (structural clauses)."""

from ..report import Ctx
from ..rules import render

EXPLANATION = "wip"


def run(ctx: Ctx) -> None:
    ctx.run(render.check_dispatch)
    ctx.run(render.check_fields)
    ctx.run(render.check_decisions)
    ctx.run(render.check_prefix)
    ctx.run(render.check_encode)
    ctx.run(render.check_fence_bound)
    ctx.run(render.check_blank_line_hygiene)
