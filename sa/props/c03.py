"""C03 Output is a canonical form independent of the input's line layout (structural clauses)."""

from ..report import Ctx
from ..rules import layout, render, rewrite

EXPLANATION = (
    'Decided: (Y1) no function on the formatting path reads source positions or raw element text (source_span, inline_body, ...); '
    '(Y2) every return of the two base wrappers carries text that went through a whitespace-collapsing step on its data path '
    "(re.sub(r'\\s+',' ') / split-join / a callee all of whose returns are normalised), collapsing is the default and is not switched "
    'off on the Markdown chains; (Y3) each disjunct of the segment-boundary test of the tag newline handler must be a tag-adjacency '
    'predicate (two block-content disjuncts are not: deliberate, recorded findings F-10); (Y4) both wrapper factories return '
    "hard_break(tag_newline(base)) under is_markdown; (Y5) on every path the document text is `.strip() + '\\n'` before the tag "
    'preprocessing and the parser; soft breaks render as a newline that the wrappers discard; rewrites see text coalesced across soft '
    'breaks. Not decided: byte identity across re-layouts and across (w1,mode1)->(w2,mode2) chains (relation between runs).'
)


def run(ctx: Ctx) -> None:
    ctx.rule('R-LAYOUT-Y1', 'no reads of source positions / raw element text on the formatting path')
    ctx.rule('R-LAYOUT-Y2', 'every terminal path of a base wrapper collapses whitespace')
    ctx.rule('R-LAYOUT-Y3', 'segment boundaries of the tag newline handler are tag-adjacency predicates')
    ctx.rule('R-LAYOUT-Y4', 'both factories apply hard_break(tag_newline(base)) under is_markdown')
    ctx.rule('R-LAYOUT-Y5', 'the parser sees strip()+newline text on every path')
    ctx.rule('R-LAYOUT-Y6', 'rendering a soft line break leaves no trace in the renderer state')
    ctx.rule('R-PREPARSE', 'tag/block spacing is forced before parsing')
    ctx.rule('R-FRONTMATTER', 'frontmatter is split off before any text processing')
    ctx.rule('R-FIELD', 'LineBreak.soft decides the break spelling')
    ctx.rule('R-REWRITE-coalesce', 'rewrites see text coalesced across soft breaks')
    ctx.run(layout.check_no_layout_reads)
    ctx.run(layout.check_whitespace_normalised)
    ctx.run(layout.check_segment_predicates)
    ctx.run(layout.check_soft_break_is_layout)
    ctx.run(layout.check_decorator_stack)
    ctx.run(layout.check_parser_input)
    ctx.run(render.check_fields, {"LineBreak.soft"})
    ctx.run(rewrite.check_coalesce_and_tags, {"coalesce"})
