"""C06 Template tags and other atomic constructs are never split or displaced (structural clauses)."""

from ..report import Ctx
from ..rules import hazard, atomic, layout, wrap

EXPLANATION = (
    'Decided over the folded constants of atomic_patterns / tag_handling: every AtomicPattern record is in ATOMIC_PATTERNS; '
    'ATOMIC_CONSTRUCT_PATTERN is the alternation of all entries in table order with DOTALL; each PAIRED_x precedes SINGLE_x; '
    'open_re/close_re are the escaped delimiters and each pattern starts/ends with them; every construct family of the statement '
    '(template tags, comments, variables, HTML comments, inline HTML tags, code spans, links, paired tags) has constant sample '
    'spellings accepted as a whole by some entry (Glushkov automaton membership); TEMPLATE_TAG_PATTERN, PAIRED_TAGS_PATTERN and the '
    'adjacency regexes are built from all four tag families; closing-tag spellings and tag predicates cover the four families; the '
    'tag post-passes run on every exit of the tag newline handler; (L5) single extraction pass, NUL-delimited placeholders spelled '
    "alike on both sides, restored on every return with the map extract produced; (L6) every text assembled from the splitter's "
    'tokens returns through denormalize_adjacent_tags; (L7) the separator normalize inserts must be reserved - it is a plain space: '
    'recorded finding F-08; (L1) tokens are never sliced; tag/block spacing is forced before parsing; the list / table heuristics '
    'read a line only after its indentation is removed; no table of the wrapping layer that outlives a call is keyed by less than '
    'what its values were computed from (R-MEMO). Not decided: whether a given '
    'construct instance is recognised at a given position of runtime text, overlap resolution between alternatives.'
)


def run(ctx: Ctx) -> None:
    ctx.rule('R-ESCAPE-SITE', 'the line-start escaper is only applied to whole tokens of the atomic-aware word splitter')
    ctx.rule('R-MEMO', 'a value kept across calls (closure / module / instance table) is keyed by everything it was computed from')
    ctx.rule('R-ATOMIC-table', 'ATOMIC_PATTERNS / ATOMIC_CONSTRUCT_PATTERN agree, paired before single, DOTALL')
    ctx.rule('R-ATOMIC-delims', 'per-entry delimiter consistency')
    ctx.rule('R-ATOMIC-family', 'every construct family of the statement is matched as a whole by some entry')
    ctx.rule('R-ATOMIC-derived', 'derived tag regexes and predicates cover all four tag families')
    ctx.rule('R-ATOMIC-post', 'tag post-passes run on every exit of the tag newline handler')
    ctx.rule('R-LOSSLESS-L5', 'placeholders restored on every path, NUL-delimited, single pass')
    ctx.rule('R-LOSSLESS-L6', 'assembled text returns through denormalize_adjacent_tags')
    ctx.rule('R-LOSSLESS-L7', 'the inserted separator is distinguishable from authored text')
    ctx.rule('R-LOSSLESS-L1', 'tokens are placed whole')
    ctx.rule('R-LOSSLESS-L3', 'last segment is flushed')
    ctx.rule('R-ATOMIC-pre', 'the tag/block spacing pre-pass carries no mode from line to line')
    ctx.rule('R-ATOMIC-cont', 'the multi-line tag fix tells a continuation line from a tag line by the tag openers alone (not by indentation)')
    ctx.rule('R-ATOMIC-block', 'the list / table heuristics look at a line only after its indentation is removed (they run inside nested containers)')
    ctx.rule('R-PREPARSE', 'tag/block spacing is forced before parsing')
    ctx.run(atomic.check_tables)
    ctx.run(atomic.check_post_passes)
    ctx.run(atomic.check_preprocess_stateless)
    ctx.run(atomic.check_continuation_test)
    ctx.run(atomic.check_block_heuristics_indent_free)
    ctx.run(wrap.check_placeholders)
    ctx.run(hazard.check_escaper_on_tokens)
    ctx.run(wrap.check_adjacency)
    ctx.run(wrap.check_word_placement)
    ctx.run(layout.check_parser_input)
    ctx.run(wrap.check_wrapping_memos)
