"""C11 Semantic line breaks fall at sentence ends and keep edits local (structural clauses)."""

from ..report import Ctx
from ..rules import layout, optflow, wrap

EXPLANATION = (
    "Frame/footprint argument for the prefix half of diff locality: in the sentence loop of the semantic wrapper the only "
    "state carried from one sentence to the next is the output line list and the first-line flag (liveness); inside the loop "
    "the list is touched only as lines[-1], len(lines) and lines.extend(...), wrap_paragraph_lines is applied to one sentence at "
    "a time, the merge into lines[-1] is taken only under the short-line test and is paired one-to-one with the pop of the "
    "merged line on every path, and lines.extend(wrapped) runs in every iteration. Hence lines before lines[-1] at the moment "
    "sentence k is processed are never touched again and depend only on sentences < k and the indents. Also decided: the "
    "formatter wires `semantic` to this wrapper with the no-minimum splitter and the default minimum line length, the "
    "sentence-end pattern is end-anchored, accepts the documented sentence ends (constant samples incl. closing quotes / parenthesis before or after the punctuation) and is applied per word, sentences are words joined by one space, both factories use "
    "the same Markdown decorator stack; the only newlines of a paragraph that survive wrapping are decided by tag-adjacency predicates (Y3; the block-content heuristic of the tag handler is a recorded finding). Not decided: suffix stability and break placement as arithmetic on lengths."
)


def run(ctx: Ctx) -> None:
    ctx.rule('R-MEMO', 'a value kept across calls (closure / module / instance table) is keyed by everything it was computed from')
    ctx.rule("R-SENT", "only the last line crosses a sentence boundary (loop-carried state and footprint of the line list)")
    ctx.rule("R-LOSSLESS-L4", "every wrapped line reaches the output; pops are paired with merges")
    ctx.rule("R-SENT-split", "sentence ends are detected per word by an end-anchored pattern; default splitter has no minimum")
    ctx.rule("R-CONSUMER", "`semantic` selects the sentence wrapper")
    ctx.rule("R-LAYOUT-Y4", "both wrapper factories apply the same decorator stack")
    ctx.rule("R-LAYOUT-Y3", "newlines kept inside a paragraph are tag-adjacent ones: segment boundaries of the tag newline handler are tag-adjacency predicates")
    ctx.rule("R-ACCT", "columns handed to the wrapping core: a sentence starts at the column of its line; a new line starts at the continuation offset")
    ctx.run(wrap.check_sentence_lines)
    ctx.run(wrap.check_sentence_split)
    ctx.run(optflow.check_consumers, ("semantic",))
    ctx.run(layout.check_decorator_stack)
    ctx.run(wrap.check_accounting, True)
    ctx.run(wrap.check_wrapping_memos)
    ctx.run(layout.check_segment_predicates)
