"""C14 In-place formatting never leaves a damaged or half-written file."""

from ..report import Ctx
from ..rules import write

EXPLANATION = (
    "Static confinement argument for C14 over all functions reachable from reformat_files / reformat_file / cli.main "
    "(minus the skill-install module): (W1) an effect table classifies every call site; the only file-system mutations are "
    "writes through the `as` target of an enclosing `with strif.atomic_output_file(...)`; (W2) every CFG path to a write "
    "site passes the call to reformat_text, reads precede it, decoding is strict; (W3) the input path is a destination only "
    "under `inplace`, the output path only otherwise, stdout only when not in place; (W4) the backup suffix evaluates to "
    "'.orig' under nobackup=False (truth-table evaluation of the IfExp); (W5) the with-body is the single write, with no "
    "return/break/continue/try that could commit a partial file; (W7) no raise is reachable from a write site; (W8) after formatting, every normal path of reformat_file writes the result; thorough "
    "adds (W6) the dependency contract read from the installed strif source: sibling temp file, rename after the yield on "
    "every normal path, not in a finally, backup before rename. POSIX rename atomicity is assumed; durability (fsync) is not "
    "part of the statement."
)


def run(ctx: Ctx) -> None:
    ctx.rule("R-WRITE-W1", "only writes through the temp path of an enclosing atomic_output_file context mutate the file system")
    ctx.rule("R-WRITE-W2", "every path to a write passes reformat_text; reads precede writes; strict decoding")
    ctx.rule("R-WRITE-W3", "destination = path only under inplace, = output only otherwise; stdout only when not in place")
    ctx.rule("R-WRITE-W4", "backup suffix is '.orig' when backups are on")
    ctx.rule("R-WRITE-W5", "atomic with-body is a single write without early exits / swallowed errors")
    ctx.rule("R-WRITE-W6", "strif.atomic_output_file: sibling temp, rename after yield on all normal paths, not in finally")
    ctx.rule("R-WRITE-W8", "after formatting, every normal path of reformat_file writes the result (file or stdout)")
    ctx.rule("R-WRITE-W7", "errors precede writes (per file and per run)")
    ctx.rule("R-USAGE", "usage errors precede every write-capable call on all paths; main maps them to non-zero exits")
    ctx.run(write.check_write)
    ctx.run(write.check_result_always_written)
    ctx.run(write.check_usage_errors)
    if ctx.tier == "thorough":
        ctx.run(write.check_strif_contract)
    ctx.assume("POSIX rename(2) atomicity; pathlib.Path.replace is os.replace")
    ctx.assume("marko / regex / pathspec perform no file-system writes (dependencies are not analysed for effects)")
