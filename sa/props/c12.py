"""C12 Formatting always terminates with well-formed output (structural clauses)."""

from ..report import Ctx
from ..rules import render, rewrite, term, wrap

EXPLANATION = (
    'Decided: (T1) for each of the while loops every trip round the loop passes a statement that updates a variable of the loop '
    'condition (for `while True`: of a break condition) or calls an advancing method (Source.consume) on an object of the condition '
    '- a cycle without such a step is reported with its path; (T2) directly recursive functions recurse only on a child drawn from '
    'iterating <param>.children; (T3) every regex constant and literal pattern of the package (folded through f-strings, joins and '
    'helper functions) is free of the three shapes that make a backtracking matcher exponential: exponential ambiguity of its '
    'Glushkov automaton (product SCC with a diagonal and an off-diagonal pair), stars not in star normal form, unbounded repeats over '
    'nullable bodies; partial operations: every constant-index subscript on the formatting path is dominated by a non-emptiness '
    'fact (truthiness / len / successful match, on all paths or earlier in the same expression), comes from str.split(sep), a fixed '
    'tuple, a try catching IndexError, or a frozen reasoned exemption; (P4) empty code lines are emitted under the right-stripped '
    'prefix; (L5) no placeholder survives the splitter; (P6) rendered blocks are newline-terminated and every return of fill_markdown '
    'ends with the renderer\'s output (early exits included); the length assertion of the '
    'cross-inline rewrite is discharged by the shape of the quote substitution (C08). Not decided: wall-clock behaviour, polynomial '
    'regex cost, crashes or hangs inside marko (its footnote parser hangs on `[^1]:  \\t x` - dependency defect).'
)


def run(ctx: Ctx) -> None:
    ctx.rule('R-TERM-T1', 'every loop iteration makes progress on its exit condition')
    ctx.rule('R-TERM-T2', 'recursion descends to a child of the parameter')
    ctx.rule('R-TERM-T3', 'no regex shape with exponential backtracking')
    ctx.rule('R-TERM-index', 'constant-index subscripts are guarded by a non-emptiness fact')
    ctx.rule('R-TERM-none', 'values marko may return as None are tested before use')
    ctx.rule('R-TERM-T3dep', 'thorough: marko\'s literal regex patterns have no exponential-backtracking shape')
    ctx.rule('R-TERM-newline', 'every return of fill_markdown ends with the renderer output; reformat_text passes it on')
    ctx.rule('R-PREFIX-P4', 'empty code lines carry no trailing spaces')
    ctx.rule('R-PREFIX-P6', 'rendered blocks are newline-terminated')
    ctx.rule('R-LOSSLESS-L5', 'no placeholder survives the word splitter')
    ctx.rule('R-SUBSHAPE-writeback', "the rewrite mapping's length assertion dominates the write-back")
    ctx.run(term.check_loops)
    ctx.run(term.check_recursion)
    ctx.run(term.check_regexes)
    ctx.run(term.check_subscripts)
    ctx.run(term.check_optional_results)
    ctx.run(term.check_result_newline)
    ctx.run(render.check_blank_line_hygiene)
    ctx.run(render.check_prefix, {"P6"})
    ctx.run(wrap.check_placeholders)
    ctx.run(rewrite.check_writeback)
    if ctx.tier == "thorough":
        ctx.run(term.check_dependency_regexes)
