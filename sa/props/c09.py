"""C09 Ellipsis conversion touches only three-dot runs in prose (structural clauses)."""

from ..report import Ctx
from ..rules import optflow, rewrite

EXPLANATION = (
    "Shape analysis: ELLIPSIS_PATTERN consists of five groups, group 3 exactly `\\.\\.\\.`, groups 2 and 5 whitespace; every "
    "return of the callback is match.group(0) or a string built (data flow only) from groups 1,2,4,5, a space and the ellipsis "
    "character; the rewrite is wired only through rewrite_text_content, whose store is dominated by isinstance(element, RawText); "
    "the container table excludes code / HTML / literal / autolink / ref-def classes; text is coalesced first (coalesce_lines=True "
    "at the call site); sibling rule: every rewriter handed to the tree rewrite protects template tags - with an unconditional "
    "TEMPLATE_TAG_PATTERN scan and a decision per match that carries no state between matches; the ellipsis pass is the last text "
    "rewrite before rendering (R-REWRITE-order); the option influences only its guarded call. Not decided: idempotence of the rewrite, equality 'up to line wrapping'."
)


def run(ctx: Ctx) -> None:
    ctx.rule("R-SUBSHAPE-ellipsis", "pattern / callback shape: only the three dots and adjacent spaces can change")
    ctx.rule("R-SUBSHAPE-literals", "only the ellipsis and quote characters as non-ASCII literals")
    ctx.rule("R-REWRITE-store", "text is written only into nodes proven RawText")
    ctx.rule("R-REWRITE-segments", "only RawText segments are mutable")
    ctx.rule("R-REWRITE-scope", "inline scopes are elements with inline content of their own")
    ctx.rule("R-REWRITE-autolink", "autolinks print their destination, never the rewritable child text")
    ctx.rule("R-REWRITE-container", "the tree walk cannot reach code / HTML / literal / autolink / ref-def nodes")
    ctx.rule("R-REWRITE-coalesce", "text is coalesced across soft breaks before rewriting")
    ctx.rule("R-REWRITE-tags", "every rewriter protects template tags")
    ctx.rule("R-NONINT", "the option influences only its guarded consumer call")
    ctx.rule("R-CONSUMER", "the switch guards the rewrite with the right rewriter")
    ctx.rule("R-REWRITE-order", "the ellipsis pass is the last text rewrite before rendering")
    ctx.run(rewrite.check_ellipsis_shape)
    ctx.run(rewrite.check_rewrite_scope)
    ctx.run(rewrite.check_coalesce_and_tags)
    ctx.run(rewrite.check_nonint, ("ellipses",))
    ctx.run(optflow.check_consumers, ("ellipses",))
    ctx.run(rewrite.check_rewrite_order)
