"""Registry of claimed properties (source of MANIFEST.json, see tools/gen_manifest.py)."""

REGISTRY: dict[str, dict[str, str]] = {
    "C01": {
        "technique": "static analysis: marko element model, slicing / taint over render methods, CFG typestate (must-pass-through), "
                     "truth tables, regex-language inclusion (Glushkov automata)",
        "level": "Decides structural necessary conditions of meaning preservation for every element class and render method: "
                 "dispatch totality, every semantic field reaches the output, decision tables injective, container-prefix "
                 "typestate on all paths, encoders for delimited contexts, fence bound, and coverage of the parser's "
                 "paragraph-interrupting first-word languages by the line-start escaper. The round trip itself (re-parse equals "
                 "input tree) quantifies over runtime text and is not decided. 7 hazard classes are genuine, recorded findings.",
        "note": "Trusted: marko source as installed (element classes, patterns); regex model over-approximates languages.",
        "design_ref": "DESIGN.md §3 R-DISPATCH..R-HAZARD, §4 C01",
    },
    "C15": {
        "technique": "static analysis: identity-origin dataflow over call-edge bindings, control dependence, liveness",
        "level": "Decides the structural clauses of C15 on every path and call site: option identity threading on each call "
                 "edge of the chain argparse->Options->main->reformat_files->reformat_file->reformat_text->fill_markdown/"
                 "fill_text->factories/renderer (no swap / drop / constant), the --auto set, switch->consumer control "
                 "dependence, sinks write exactly reformat_text's result, usage errors precede writes and exit non-zero, no "
                 "loop-carried state between files. Byte-identity itself is not re-proved (needs C13 and runtime values).",
        "note": "Trusted: CPython argparse/dataclass semantics, the analyser's binding and reaching-definition model.",
        "design_ref": "DESIGN.md §3 R-OPTFLOW/R-SINK, §4 C15",
    },
    "C13": {
        "technique": "static analysis: call-graph reachability, effect / escape analysis, alias origins (confinement argument)",
        "level": "Confinement: over every function reachable from the formatting entry points no store reaches a location that "
                 "outlives the call (globals, class attributes, module-level objects or aliases of them, captured variables of "
                 "escaping closures, cached or import-time instances of stateful classes, mutable defaults); parser and renderer "
                 "are rebuilt on every parse()/render(). Thorough adds a scan of the marko modules against a frozen exemption list. "
                 "This is the property static analysis suits best: it is the absence of a shared mutable location on any path.",
        "note": "Trusted: CPython functools.cache / re caches are transparent; marko 2.2.4 keeps per-parse state in objects "
                "allocated inside Parser.parse (S8 checks the source); dynamic features (setattr by name, exec) are absent.",
        "design_ref": "DESIGN.md §3 R-PURE, §4 C13",
    },
    "C14": {
        "technique": "static analysis: effect table over the call graph, CFG must-pass-through and reachability, constant evaluation",
        "level": "Write-effect confinement and ordering on all paths: the only file-system mutation reachable from a formatting "
                 "run is the write through the temporary path of strif.atomic_output_file; it is dominated by reformat_text and "
                 "the read; the input path is a destination only under inplace; backups use '.orig'; the with-body cannot commit "
                 "a partial file; errors precede writes per file and per run. Thorough checks the strif source contract (sibling "
                 "temp file, rename after the body, not in finally, backup first).",
        "note": "Trusted: POSIX rename atomicity, pathlib/strif behave as their source reads, dependencies (marko, regex) do not write files.",
        "design_ref": "DESIGN.md §3 R-WRITE, §4 C14",
    },
    "C16": {
        "technique": "static analysis: argparse model, table agreement, truth-table evaluation of merge guards, CFG per-iteration guards",
        "level": "Agreement of the finite tables that implement the precedence: accepted config keys vs Options fields vs consumers, "
                 "explicit-flag table vs argparse dests, sentinel parser vs main parser (incl. every short option), auto-locked set vs "
                 "--auto preset, file-name order and loop nesting of the upward search, merge skip guards implied by their atoms, "
                 "kebab table, wiring of the merge in main. TOML parsing and concrete directory trees are not decided.",
        "note": "Trusted: argparse semantics (dest derivation, clustering, parse_known_args), tomllib.",
        "design_ref": "DESIGN.md §3 R-CONFIG, §4 C16",
    },
    "C17": {
        "technique": "static analysis: per-iteration must-pass-through (intersection of branch edges over acyclic CFG paths), "
                     "filter classification through helper summaries, identity origins",
        "level": "Decides the filter matrix of the statement for each of the three discovery paths at every yield/append site, "
                 "the no-symlink guarantee of traversal, in-place pruning, seen-set + final sort on all paths, and the size-limit "
                 "conventions. Completeness on a concrete tree and pathspec's pattern semantics are not decided.",
        "note": "Trusted: os.walk / pathlib semantics, pathspec.",
        "design_ref": "DESIGN.md §3 R-RESOLVE, §4 C17",
    },
    "C18": {
        "technique": "static analysis: provenance (slicing) of the matcher argument and of the spec, shape of the combination rule",
        "level": "Decides four necessary conditions of agreement with git at the two gitignore matcher sites: dependence on "
                 "respect_gitignore, matcher argument relative to the .gitignore's directory, no plain disjunction across levels, "
                 "gitignore factory. G2/G3 fail today at both sites (recorded findings F-16). Agreement with git on concrete "
                 "trees is a runtime differential and not decided.",
        "note": "Trusted: pathspec implements gitignore syntax.",
        "design_ref": "DESIGN.md §3 R-RESOLVE G1-G4, §4 C18",
    },
}

NOT_APPLICABLE: dict[str, str] = {
    "C02": "Idempotence format(format(x)) == format(x) relates two executions through the parser's reading of the "
           "renderer's own output for every input; no structural rule in reach is a tight necessary condition, and a "
           "runtime test is a different technique family (DESIGN.md §4 C02).",
}
for _i in range(1, 19):
    _p = f"C{_i:02d}"
    if _p not in REGISTRY and _p not in NOT_APPLICABLE:
        NOT_APPLICABLE[_p] = "check under construction in this round (planned claim, see DESIGN.md §4); not yet registered"
