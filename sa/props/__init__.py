"""Registry of claimed properties (source of MANIFEST.json, see tools/gen_manifest.py)."""

REGISTRY: dict[str, dict[str, str]] = {
    "C15": {
        "technique": "static analysis: identity-origin dataflow over call-edge bindings, control dependence, liveness",
        "level": "Decides the structural clauses of C15 on every path and call site: option identity threading on each call "
                 "edge of the chain argparse->Options->main->reformat_files->reformat_file->reformat_text->fill_markdown/"
                 "fill_text->factories/renderer (no swap / drop / constant), the --auto set, switch->consumer control "
                 "dependence, sinks write exactly reformat_text's result, usage errors precede writes and exit non-zero, no "
                 "loop-carried state between files. Byte-identity itself is not re-proved (needs C13 and runtime values).",
        "note": "Trusted: CPython argparse/dataclass semantics, the analyser's binding and reaching-definition model.",
        "design_ref": "DESIGN.md §3 R-OPTFLOW/R-SINK, §4 C15",
    },
}

NOT_APPLICABLE: dict[str, str] = {
    "C02": "Idempotence format(format(x)) == format(x) relates two executions through the parser's reading of the "
           "renderer's own output for every input; no structural rule in reach is a tight necessary condition, and a "
           "runtime test is a different technique family (DESIGN.md §4 C02).",
}
for _i in range(1, 19):
    _p = f"C{_i:02d}"
    if _p not in REGISTRY and _p not in NOT_APPLICABLE:
        NOT_APPLICABLE[_p] = "check under construction in this round (planned claim, see DESIGN.md §4); not yet registered"
