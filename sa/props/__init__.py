"""Registry of claimed properties (source of MANIFEST.json, see tools/gen_manifest.py)."""

REGISTRY: dict[str, dict[str, str]] = {
    "C01": {
        "technique": "static analysis: marko element model, slicing / taint over render methods, CFG typestate (must-pass-through), "
                     "truth tables, regex-language inclusion (Glushkov automata)",
        "level": "Decides structural necessary conditions of meaning preservation for every element class and render method: "
                 "dispatch totality, every semantic field reaches the output, decision tables injective, container-prefix "
                 "typestate on all paths, encoders for delimited contexts, fence bound, and coverage of the parser's "
                 "paragraph-interrupting first-word languages by the line-start escaper. The round trip itself (re-parse equals "
                 "input tree) quantifies over runtime text and is not decided. 7 hazard classes are genuine, recorded findings.",
        "note": "Trusted: marko source as installed (element classes, patterns); regex model over-approximates languages.",
        "design_ref": "DESIGN.md §3 R-DISPATCH..R-HAZARD, §4 C01",
    },
    "C15": {
        "technique": "static analysis: identity-origin dataflow over call-edge bindings, control dependence, liveness",
        "level": "Decides the structural clauses of C15 on every path and call site: option identity threading on each call "
                 "edge of the chain argparse->Options->main->reformat_files->reformat_file->reformat_text->fill_markdown/"
                 "fill_text->factories/renderer (no swap / drop / constant), the --auto set, switch->consumer control "
                 "dependence, sinks write exactly reformat_text's result, usage errors precede writes and exit non-zero, no "
                 "loop-carried state between files. Byte-identity itself is not re-proved (needs C13 and runtime values).",
        "note": "Trusted: CPython argparse/dataclass semantics, the analyser's binding and reaching-definition model.",
        "design_ref": "DESIGN.md §3 R-OPTFLOW/R-SINK, §4 C15",
    },
    "C03": {
        "technique": "static analysis: attribute-read scan over the call graph, data-path slicing for whitespace normalisation, "
                     "predicate classification, dominance of strip()+newline before the parser",
        "level": "Decides five structural necessary conditions of layout independence (Y1-Y5): no source-position reads, every "
                 "terminal path of the base wrappers collapses whitespace, segment boundaries are tag-adjacency predicates (two "
                 "deliberate block-content disjuncts recorded as findings), identical decorator stacks, stripped and "
                 "newline-terminated parser input. Byte identity across re-layouts / option chains is a relation between runs "
                 "and is not decided.",
        "note": "Trusted: str.split()/re.sub semantics; the word/sentence splitter protocols split on whitespace.",
        "design_ref": "DESIGN.md §3 R-LAYOUT, §4 C03",
    },
    "C04": {
        "technique": "static analysis: forward taint of verbatim fields with an operation allow/deny table, lower-bound "
                     "propagation for the fence, isinstance-dominance of text stores, MRO-aware container table check",
        "level": "Decides that verbatim fields reach the output through content-preserving operations only, that delimited "
                 "contexts use content-dependent encoders, that the fence is strictly longer than any fence-like run of the "
                 "emitted text, that the parser subclass ends a fenced block where marko does (closing test on the source line as read), "
                 "and that rewrites cannot reach non-prose nodes or template tags. Parser-side normalisation in "
                 "marko is outside the repository.",
        "note": "Trusted: the operation table (lossy vs preserving string methods), marko class hierarchy as installed.",
        "design_ref": "DESIGN.md §3 R-ENCODE/R-BOUND/R-REWRITE, §4 C04",
    },
    "C05": {
        "technique": "static analysis: per-iteration path enumeration of the fill loop, identity origins, flush-after-loop pairing, "
                     "symbolic width/indent accounting",
        "level": "Decides losslessness structurally (each word placed exactly once and whole on every path, accumulators "
                 "flushed, sentence lines never dropped, indents routed correctly) and that width/indents are accounted exactly "
                 "once on every chain (the indented Wrap modes of fill_text count the indent twice: recorded finding). The width "
                 "bound and maximality are arithmetic on runtime lengths and are not decided.",
        "note": "Trusted: list/str method semantics.",
        "design_ref": "DESIGN.md §3 R-LOSSLESS/R-ACCT, §4 C05",
    },
    "C06": {
        "technique": "static analysis: constant folding of the pattern tables, table agreement, regex-automaton membership of "
                     "constant sample constructs, typestate of placeholders and tag adjacency",
        "level": "Decides that the atomic-construct tables agree and cover every construct family of the statement, that "
                 "extraction/restoration and normalise/denormalise are paired on every path, and that the tag post-passes run on "
                 "every exit, that the block heuristics ignore container indentation and that no memo of the wrapping layer is under-keyed. "
                 "The adjacency separator is not reserved (recorded finding F-08). Recognition of a construct "
                 "instance in runtime text is not decided.",
        "note": "Trusted: regex model over-approximates languages; sample spellings are constants of the check.",
        "design_ref": "DESIGN.md §4 C06",
    },
    "C07": {
        "technique": "static analysis: use-site enumeration and dominance in fill_markdown, forward taint through split_frontmatter",
        "level": "Decides that the frontmatter text reaches the result only through the final concatenation, is split off before "
                 "any processing, never influences the body, and is built by an inverse split/join pair (only CRLF->LF folding). "
                 "The unclosed-frontmatter clause is a value property and not decided.",
        "note": "Trusted: str.split('\\n') / '\\n'.join are inverse.",
        "design_ref": "DESIGN.md §4 C07",
    },
    "C08": {
        "technique": "static analysis: sre parse-tree shape of pattern + replacement callback, partition of slices, "
                     "isinstance-dominance of stores, non-interference by slicing",
        "level": "Decides that the quote substitution can only swap the two quote characters of a match for the matching curly "
                 "pair (length preserving), apostrophes are one-for-one, tags are copied verbatim, the write-back is per segment "
                 "under the length assertion and only into RawText nodes, and the option influences nothing else. Line-break "
                 "equality with the option off is not decided.",
        "note": "Trusted: re.sub / re.split semantics.",
        "design_ref": "DESIGN.md §3 R-SUBSHAPE/R-REWRITE/R-NONINT, §4 C08",
    },
    "C09": {
        "technique": "static analysis: sre parse-tree shape of pattern + callback (data-flow of emitted constants), "
                     "isinstance-dominance, sibling rule for template tags, non-interference",
        "level": "Decides that only the three dots and adjacent spaces of a match can change, that the rewrite reaches RawText "
                 "only, sees text coalesced in every element that has inline children, protects template tags like its sibling, and that the option influences nothing "
                 "else. Idempotence of the rewrite is not decided.",
        "note": "Trusted: re.sub semantics.",
        "design_ref": "DESIGN.md §4 C09",
    },
    "C10": {
        "technique": "static analysis: guard dominance in the cleanup, alias-class coverage of isinstance dispatch, enum-arm "
                     "exhaustiveness, read/write confinement of the tightness flag",
        "level": "Decides that cleanups only unwrap a heading's single strong child (for every heading class), that list-spacing "
                 "has one arm per mode with the right input, and that the mode can influence nothing but the blank separator "
                 "line between items. Which lists end up tight is value-level.",
        "note": "Trusted: marko class hierarchy as installed.",
        "design_ref": "DESIGN.md §4 C10",
    },
    "C11": {
        "technique": "static analysis: liveness (loop-carried state) and access-footprint of the line list in the sentence loop, "
                     "per-iteration path pairing",
        "level": "Proves the prefix half of diff locality by a frame argument (only lines[-1] crosses a sentence boundary) and "
                 "decides the wiring of the semantic mode. Suffix stability and break placement are arithmetic and not decided.",
        "note": "Trusted: list semantics.",
        "design_ref": "DESIGN.md §3 R-SENT, §4 C11",
    },
    "C12": {
        "technique": "static analysis: loop-progress cycles in the CFG, structural recursion, Glushkov-automaton ambiguity and "
                     "star-normal-form tests on every regex constant, dominance of non-emptiness facts",
        "level": "Decides the structural causes of divergence and crashes: loops without progress, non-structural recursion, "
                 "regexes with exponential backtracking shapes, unguarded constant indexing; plus output hygiene clauses. "
                 "Wall-clock behaviour, polynomial regex cost and hangs inside marko are not decided.",
        "note": "Trusted: regex model over-approximates languages (a 'no' is sound); marko terminates.",
        "design_ref": "DESIGN.md §3 R-TERM, §4 C12",
    },
    "C13": {
        "technique": "static analysis: call-graph reachability, effect / escape analysis, alias origins (confinement argument)",
        "level": "Confinement: over every function reachable from the formatting entry points no store reaches a location that "
                 "outlives the call (globals, class attributes, module-level objects or aliases of them, captured variables of "
                 "escaping closures, cached or import-time instances of stateful classes, mutable defaults); parser and renderer "
                 "are rebuilt on every parse()/render(). Thorough adds a scan of the marko modules against a frozen exemption list. "
                 "This is the property static analysis suits best: it is the absence of a shared mutable location on any path.",
        "note": "Trusted: CPython functools.cache / re caches are transparent; marko 2.2.4 keeps per-parse state in objects "
                "allocated inside Parser.parse (S8 checks the source); dynamic features (setattr by name, exec) are absent.",
        "design_ref": "DESIGN.md §3 R-PURE, §4 C13",
    },
    "C14": {
        "technique": "static analysis: effect table over the call graph, CFG must-pass-through and reachability, constant evaluation",
        "level": "Write-effect confinement and ordering on all paths: the only file-system mutation reachable from a formatting "
                 "run is the write through the temporary path of strif.atomic_output_file; it is dominated by reformat_text and "
                 "the read; the input path is a destination only under inplace; backups use '.orig'; the with-body cannot commit "
                 "a partial file; errors precede writes per file and per run. Thorough checks the strif source contract (sibling "
                 "temp file, rename after the body, not in finally, backup first).",
        "note": "Trusted: POSIX rename atomicity, pathlib/strif behave as their source reads, dependencies (marko, regex) do not write files.",
        "design_ref": "DESIGN.md §3 R-WRITE, §4 C14",
    },
    "C16": {
        "technique": "static analysis: argparse model, table agreement, truth-table evaluation of merge guards, CFG per-iteration guards",
        "level": "Agreement of the finite tables that implement the precedence: accepted config keys vs Options fields vs consumers, "
                 "explicit-flag table vs argparse dests, sentinel parser vs main parser (incl. every short option), auto-locked set vs "
                 "--auto preset, file-name order and loop nesting of the upward search, merge skip guards implied by their atoms, "
                 "kebab table, wiring of the merge in main. TOML parsing and concrete directory trees are not decided.",
        "note": "Trusted: argparse semantics (dest derivation, clustering, parse_known_args), tomllib.",
        "design_ref": "DESIGN.md §3 R-CONFIG, §4 C16",
    },
    "C17": {
        "technique": "static analysis: per-iteration must-pass-through (intersection of branch edges over acyclic CFG paths), "
                     "filter classification through helper summaries, identity origins",
        "level": "Decides the filter matrix of the statement for each of the three discovery paths at every yield/append site, "
                 "the no-symlink guarantee of traversal, in-place pruning, seen-set + final sort on all paths, and the size-limit "
                 "conventions. Completeness on a concrete tree and pathspec's pattern semantics are not decided.",
        "note": "Trusted: os.walk / pathlib semantics, pathspec.",
        "design_ref": "DESIGN.md §3 R-RESOLVE, §4 C17",
    },
    "C18": {
        "technique": "static analysis: provenance (slicing) of the matcher argument and of the spec, shape of the combination rule",
        "level": "Decides four necessary conditions of agreement with git at the two gitignore matcher sites: dependence on "
                 "respect_gitignore, matcher argument relative to the .gitignore's directory, no plain disjunction across levels, "
                 "gitignore factory. G2/G3 fail today at both sites (recorded findings F-16). Agreement with git on concrete "
                 "trees is a runtime differential and not decided.",
        "note": "Trusted: pathspec implements gitignore syntax.",
        "design_ref": "DESIGN.md §3 R-RESOLVE G1-G4, §4 C18",
    },
}

NOT_APPLICABLE: dict[str, str] = {
    "C02": "Idempotence format(format(x)) == format(x) relates two executions through the parser's reading of the "
           "renderer's own output for every input; no structural rule in reach is a tight necessary condition, and a "
           "runtime test is a different technique family (DESIGN.md §4 C02).",
}
for _i in range(1, 19):
    _p = f"C{_i:02d}"
    if _p not in REGISTRY and _p not in NOT_APPLICABLE:
        NOT_APPLICABLE[_p] = "check under construction in this round (planned claim, see DESIGN.md §4); not yet registered"
