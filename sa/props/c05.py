"""C05 Wrapping is lossless, width-bounded and maximal (structural clauses)."""

from ..report import Ctx
from ..rules import hazard, layout, wrap

EXPLANATION = (
    'Decided: (L1) on every acyclic path through the fill loop the current word is placed exactly once, and the placed value is the '
    'loop word or its escaped form (never a slice / strip / re-split); (L3) accumulators that are emitted-and-reset inside a loop are '
    'emitted once more after it (last line, last sentence, last segment); (L4) every wrapped line of a sentence reaches the output, '
    'pops are paired with merges on every path; (L8) decorators hand the first-line indent to the first segment only and the '
    'continuation indent otherwise, base wrappers prefix lines[0] / lines[1:] accordingly; (R-ACCT) the width is handed down '
    'unchanged on every chain to wrap_paragraph_lines and the indents are accounted exactly once as initial_column / '
    'subsequent_offset (fill_text subtracts the indent from the width *and* passes it as offset: recorded finding F-19), the fit '
    'test reads column + word + space against width, the column after a break uses the length of the word actually placed, '
    'width <= 0 short-circuits before any splitting; (L2) the escaper only inserts one backslash. Not decided: the width bound and '
    'maximality themselves (<= versus <, +1 for the space): arithmetic on runtime lengths.'
)


def run(ctx: Ctx) -> None:
    ctx.rule('R-LAYOUT-Y4', 'whatever the width, the Markdown wrappers are hard_break(tag_newline(base)): one line per hard-break / tag-delimited segment needs the decorators at width <= 0 too')
    ctx.rule('R-MEMO', 'a value kept across calls (closure / module / instance table) is keyed by everything it was computed from')
    ctx.rule('R-LOSSLESS-L1', 'each word is placed exactly once per iteration, unmodified or escaped')
    ctx.rule('R-LOSSLESS-L3', 'accumulators reset in a loop are flushed after it')
    ctx.rule('R-LOSSLESS-L4', 'every wrapped line reaches the output; pops paired with merges')
    ctx.rule('R-LOSSLESS-L8', 'first-line indent for the first segment only; both indents reach the text')
    ctx.rule('R-ACCT', 'width handed down unchanged; indents accounted once; column bookkeeping uses the placed word')
    ctx.rule('R-SENT', 'sentence loop footprint')
    ctx.rule('R-LOOPSTATE', 'nothing accumulates from one paragraph to the next in fill_text')
    ctx.rule('R-ESCAPE-ACTION', 'the escaper returns the word or the word with one backslash inserted')
    ctx.run(wrap.check_word_placement)
    ctx.run(wrap.check_sentence_lines)
    ctx.run(wrap.check_indents)
    ctx.run(wrap.check_accounting)
    ctx.run(wrap.check_paragraph_independence)
    ctx.run(hazard.check_escape_action)
    ctx.run(wrap.check_wrapping_memos)
    ctx.run(layout.check_decorator_stack)
