"""C08 Smart quotes only swap individual quote characters, and only in prose (structural clauses)."""

from ..report import Ctx
from ..rules import optflow, rewrite

EXPLANATION = (
    "Shape analysis of the substitution: the sre parse tree of QUOTE_PATTERN is g1 (\"g2\"|'g3') g4 with the two un-grouped "
    "literals being the same straight quote; each return of the callback is match.group(0) or group1 + one curly quote + the "
    "content group + the matching curly quote + group4, double <-> double, single <-> single on the right branch (hence length "
    "preserving, only quote positions change); apostrophes are re.sub of a one-character literal by one curly character over a "
    "re.split with a single capturing group rejoined with ''; smart_quotes copies TEMPLATE_TAG_PATTERN matches verbatim and "
    "applies the rewriter to slices that partition the text; the write-back into the tree is dominated by the length assertion, "
    "slices by segment length, advances for every segment, and writes only into nodes proven RawText (isinstance on every "
    "path; CodeSpan / InlineHTML / Literal / LineBreak segments carry None); the container table excludes code, HTML, literal, "
    "autolink and ref-def classes (MRO aware); text is coalesced before rewriting; the option influences only its guarded call; the quote pass is not preceded by the "
    "ellipsis pass (R-REWRITE-order). "
    "Not decided: 'same line breaks as with the option off' after wrapping."
)


def run(ctx: Ctx) -> None:
    ctx.rule("R-SUBSHAPE-quote", "quote pattern / callback shape: only the two quote characters change, kind-preserving")
    ctx.rule("R-SUBSHAPE-apostrophe", "apostrophe rewrite is one char for one char; split/join restores separators")
    ctx.rule("R-SUBSHAPE-tags", "template tags are copied verbatim; the rewriter sees a partition of the rest")
    ctx.rule("R-SUBSHAPE-writeback", "write-back under the length assertion, per segment, per inline scope")
    ctx.rule("R-SUBSHAPE-literals", "only curly quotes (and the em dash in the pattern) as non-ASCII literals")
    ctx.rule("R-REWRITE-store", "text is written only into nodes proven RawText")
    ctx.rule("R-REWRITE-segments", "only RawText segments are mutable")
    ctx.rule("R-REWRITE-scope", "inline scopes are elements with inline content of their own")
    ctx.rule("R-REWRITE-autolink", "autolinks print their destination, never the rewritable child text")
    ctx.rule("R-REWRITE-container", "the tree walk cannot reach code / HTML / literal / autolink / ref-def nodes")
    ctx.rule("R-REWRITE-coalesce", "text is coalesced across soft breaks before rewriting")
    ctx.rule("R-REWRITE-tags", "every rewriter protects template tags")
    ctx.rule("R-NONINT", "the option influences only its guarded consumer call")
    ctx.rule("R-CONSUMER", "the switch guards the rewrite with the right rewriter")
    ctx.rule("R-REWRITE-order", "the ellipsis pass is the last text rewrite before rendering")
    ctx.run(rewrite.check_quotes_shape)
    ctx.run(rewrite.check_writeback)
    ctx.run(rewrite.check_rewrite_scope)
    ctx.run(rewrite.check_coalesce_and_tags, {"coalesce"})
    ctx.run(rewrite.check_nonint, ("smartquotes",))
    ctx.run(optflow.check_consumers, ("smartquotes",))
    ctx.run(rewrite.check_rewrite_order)
