"""C18 gitignore handling agrees with git (structural clauses)."""

from ..report import Ctx
from ..rules import resolve

EXPLANATION = (
    "Structural necessary conditions for agreeing with git, decided at the two sites where a .gitignore spec is consulted "
    "(files in _walk_directory, directories in _is_dir_excluded): (G1) every use is control/data dependent on "
    "config.respect_gitignore; (G2) provenance of the matcher argument: git matches against the path relative to the "
    "directory of the .gitignore, so the argument must derive from a relative_to(...) computation, not from an os.walk "
    "basename; (G3) the per-level specs must not be combined as a plain disjunction, which cannot express a deeper negation "
    "overriding a shallower match; (G4) patterns are compiled with pathspec's gitignore factory; (G5) the rule lines of an "
    "ignore file reach that factory in file order with their repetitions (no set / sorted / dict.fromkeys / reversed on the "
    "way: the last matching line wins in git); (G6) the os.walk loop carries no variable from one directory to the next (the chain of a directory is computed from that directory); (cache) a spec chain that is stored in a memo table, or handed out by a "
    "memoising method, is never changed in place (it would be shared by all directories of a walk). Agreement with `git "
    "check-ignore` on concrete trees is a differential, runtime question and is not decided. G2/G3 fail today at both sites: "
    "genuine, recorded findings (F-16)."
)


def run(ctx: Ctx) -> None:
    ctx.rule("R-GITIGNORE-G1", "every use of a gitignore spec depends on respect_gitignore")
    ctx.rule("R-GITIGNORE-G2", "the matcher argument is the path relative to the .gitignore's directory")
    ctx.rule("R-GITIGNORE-G3", "specs of different levels are not combined by plain disjunction (negation override)")
    ctx.rule("R-GITIGNORE-G4", "patterns are compiled with pathspec's gitignore syntax")
    ctx.rule("R-GITIGNORE-G5", "rule lines are compiled in file order, repetitions included")
    ctx.rule("R-RESOLVE-cache", "values held in memo tables (or returned by memoising methods) are not mutated in place")
    ctx.run(resolve.check_gitignore)
    ctx.run(resolve.check_cached_values_not_mutated)
    ctx.rule("R-GITIGNORE-G6", "the directory walk carries no filter state from one directory to the next")
    ctx.run(resolve.check_walk_is_per_directory)
