"""C17 File discovery returns exactly the wanted files, deterministically (filter pipeline clauses)."""

from ..report import Ctx
from ..rules import resolve

EXPLANATION = (
    "Static must-pass-through check of the resolver's filter pipeline: for every yield / append site the set of filter tests "
    "taken on every per-iteration CFG path (intersection over acyclic paths) is classified (include, exclude, size, gitignore, "
    ".flowmarkignore, symlink, through helper summaries) and compared with the matrix in the statement: traversal => include, "
    "size, tool-ignore, gitignore, not-a-symlink; glob => include, size, exclude, tool-ignore; explicit => size, and exclusions "
    "only under force_exclude. Also: os.walk without followlinks, pruning assigns dirnames[:] of the walk and consults "
    "exclude/tool-ignore/gitignore, every append is guarded by the seen-set on the resolved path and followed by the sort on "
    "all paths to the return, size limit 0 short-circuits and the comparison is strict; every memoising store of the resolver is keyed by all inputs its value depends on (slices of key and value). Completeness on a concrete tree and "
    "pathspec's matching semantics are not decided."
)


def run(ctx: Ctx) -> None:
    ctx.rule("R-RESOLVE-V1", "each discovery path passes exactly the filters the statement lists (per-iteration must-edges)")
    ctx.rule("R-RESOLVE-V2", "no file or directory is reached through a symlink during traversal")
    ctx.rule("R-RESOLVE-V3", "directory pruning is in place (dirnames[:]) and consults exclude / tool-ignore / gitignore")
    ctx.rule("R-RESOLVE-V4", "seen-set on resolved paths before every append; sort after the last append")
    ctx.rule("R-RESOLVE-V5", "size limit: 0 disables, strict comparison")
    ctx.rule("R-RESOLVE-cache", "a memoised value depends only on what its key is computed from")
    ctx.run(resolve.check_resolve)
    ctx.run(resolve.check_cache_keys)
    ctx.run(resolve.check_cached_values_not_mutated)
    ctx.run(resolve.check_walk_is_per_directory)
    ctx.assume("pathlib / os.walk semantics; pathspec matches gitignore-syntax patterns correctly")
