"""C04 Code, tags, URLs and other non-prose spans are reproduced verbatim (structural clauses)."""

from ..report import Ctx
from ..rules import hazard, fence, render, rewrite, wrap

EXPLANATION = (
    "Decided: (R-ENCODE-verbatim) forward taint from every verbatim field (code text, info string, labels, destinations, titles, "
    "inline HTML, code-span text, alert type) through its render method and helpers: only content-preserving operations may touch "
    "it (concatenation, split/join on '\\n', removal of one trailing newline, the named encoders) - strip/rstrip/splitlines/"
    "lower/replace/re.sub/slices are reported with the operation and its site; (R-ENCODE) code-span delimiter sized from the "
    "content, titles quote-escaped, destinations through the angle-bracket encoder, cells pipe-escaped; (R-BOUND) a one-symbol "
    "lower-bound domain shows the emitted fence is at least (longest fence-like run + 1) long, with the same character scanned "
    "and emitted and the scan applied to the emitted text; (R-FENCE) the parser subclass that records the fence decides whether a line closes the block on the source line as read (before the opener's indentation is removed), with marko's closing pattern and the contains-the-opening-run test; (R-FIELD) lang/extra/fence_char/fence_len/dest/title/label reach the "
    "output; (R-REWRITE) text rewrites write only into nodes proven RawText, the tree walk cannot reach code/HTML/literal/"
    "autolink/ref-def classes (MRO aware), every rewriter protects template tags; (R-LOSSLESS-L5) placeholders of atomic "
    "constructs are restored on every path of the word splitter. Not decided: normalisation done inside marko while parsing "
    "(mailto:/http:// prefixes, label case folding, info-string unescaping) - dependency behaviour."
)


def run(ctx: Ctx) -> None:
    ctx.rule('R-REWRITE-coalesce', 'the text rewriters see coalesced text: a template tag split by a soft break is protected only after the pieces are merged')
    ctx.rule('R-ESCAPE-SITE', 'the line-start escaper is only applied to whole tokens of the atomic-aware word splitter')
    ctx.rule("R-ENCODE-verbatim", "only content-preserving operations between a verbatim field and the output")
    ctx.rule("R-ENCODE-codespan", "code span delimiter is computed from the content's backtick runs")
    ctx.rule("R-ENCODE-title", "titles are emitted with inner double quotes escaped")
    ctx.rule("R-ENCODE-dest", "link/image destinations pass through an encoder, never the bare attribute")
    ctx.rule("R-ENCODE-cell", "table cell text has the pipe re-escaped")
    ctx.rule("R-BOUND", "emitted fence length >= longest fence-like run + 1, same fence character, scan over the emitted text")
    ctx.rule("R-FENCE", "a fenced block ends where marko says: the closing test reads the source line, not a de-indented copy")
    ctx.rule("R-FIELD", "verbatim fields reach the output")
    ctx.rule("R-REWRITE-store", "text is written only into nodes proven RawText")
    ctx.rule("R-REWRITE-segments", "only RawText segments are mutable")
    ctx.rule("R-REWRITE-scope", "inline scopes are elements with inline content of their own")
    ctx.rule("R-REWRITE-autolink", "autolinks print their destination, never the rewritable child text")
    ctx.rule("R-REWRITE-container", "the tree walk cannot reach code / HTML / literal / autolink / ref-def nodes")
    ctx.rule("R-REWRITE-tags", "every rewriter protects template tags")
    ctx.rule("R-LOSSLESS-L5", "placeholders of atomic constructs are restored on every path")
    ctx.run(render.check_encode)
    ctx.run(render.check_fence_bound)
    ctx.run(fence.check_fence_parse)
    ctx.run(render.check_fields, {"lang", "extra", "fence_char", "fence_len", "dest", "title", "label", "body", "alert_type",
                                  "CodeSpan.children", "InlineHTML.children", "Literal.children", "CodeBlock.children", "CustomFencedCode.children"})
    ctx.run(rewrite.check_rewrite_scope)
    ctx.run(rewrite.check_coalesce_and_tags)  # (tag protection only works on coalesced text: a tag cut in two by a soft break is two non-tags)
    ctx.run(wrap.check_placeholders)
    ctx.run(hazard.check_escaper_on_tokens)
    ctx.assume("marko's own normalisation while parsing (autolink prefixes, label folding, info-string unescaping) is outside the repository")
