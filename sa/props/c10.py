"""C10 Cleanups and list-spacing options do exactly what they say and nothing else (structural clauses)."""

from ..report import Ctx
from ..rules import cleanups, optflow, render, rewrite

EXPLANATION = (
    "Decided: every store of doc_cleanups is guarded by (heading, exactly one child, that child is strong emphasis) and "
    "re-links the child's own children; alias-class coverage of every isinstance dispatch in transforms/ (element types that "
    "share render code must be treated alike); the list renderer has one arm per ListSpacing member with preserve <- "
    "element.tight, tight <- item block counts, loose <- False (R-DECISION); non-interference: `cleanups` influences only its "
    "guarded call, the list-spacing mode is read only in render_list, flows only into the tightness flag, which is read only by "
    "the item-separator guard, under which only a blank separator line is emitted; the flag is saved and restored on all paths. "
    "Not decided: which lists of a concrete document end up tight (value level)."
)


def run(ctx: Ctx) -> None:
    ctx.rule('R-STATE', 'a block that renders children inside container(...) decides the item-gap flag itself after the container')
    ctx.rule("R-CLEANUP", "cleanup stores are guarded by heading / single child / strong emphasis and keep the content")
    ctx.rule("R-REWRITE-alias", "element types rendered by the same code are treated alike by every isinstance dispatch in transforms/")
    ctx.rule("R-DECISION-spacing", "one arm per ListSpacing member, each depending on the right input")
    ctx.rule("R-NONINT", "an option influences nothing but its guarded consumer call")
    ctx.rule("R-NONINT-spacing", "list_spacing can only change the blank separator line between items")
    ctx.rule("R-CONSUMER", "cleanups / list_spacing are wired to their consumers")
    ctx.run(cleanups.check_cleanup_guards)
    ctx.run(rewrite.check_alias_coverage)
    ctx.run(cleanups.check_spacing_arms)
    ctx.run(cleanups.check_item_gap_flag)
    ctx.run(rewrite.check_nonint, ("cleanups",))
    ctx.run(rewrite.check_list_spacing_confinement)
    ctx.run(optflow.check_consumers, ("cleanups",))
