"""C16 Configuration precedence: explicit flag over config file over default."""

from ..report import Ctx
from ..rules import cleanups, config, optflow

EXPLANATION = (
    "Static agreement check of the tables that implement the precedence (finite sets read from the source): (K1) every "
    "field of FlowmarkConfig - the keys accepted without warning - is an Options field and is read from the merged options "
    "on the way to reformat_files / FileResolverConfig; (K2) the explicit-flag table maps every argparse dest that has a "
    "config counterpart to the Options field that is read from it; (K3) for each tracked dest the sentinel parser declares "
    "the same option strings and arity with a sentinel default, every short option of the main parser is known to it "
    "(argparse clusters short options), and both parse the same argv; (K4) the auto-locked set equals the --auto preset and "
    "locks neither width nor discovery settings; (K3) both parsers declare every tracked option alike, parse the same argv and are built with the same matching settings (allow_abbrev, prefix_chars); (K5) file-name order, nesting of the name loop inside the upward walk, "
    "is_file and [tool.flowmark] guards on every successful return; (K6) truth-table evaluation of the merge loop's skip "
    "guards: each is implied by its atom (value is None / name in explicit_flags / is_auto and name in auto_locked), the loop "
    "visits fields(FlowmarkConfig), setattr stores getattr's value under the same name; (K7) kebab table entries map k to "
    "k.replace('-','_'), unknown keys warn; (K8) main merges before the options are consumed, with the parsed "
    "explicit_flags/is_auto. TOML parsing and the file system search on a concrete tree are not decided."
)


def run(ctx: Ctx) -> None:
    ctx.rule('R-DECISION-spacing', 'a list-spacing mode that arrives from the config file as a plain string selects the same arm of the list renderer as the enum member (compared by value, not identity)')
    ctx.rule("R-CONFIG-K1", "every accepted config key is an Options field and is consumed after the merge")
    ctx.rule("R-CONFIG-K2", "explicit-flag table covers every setting with both a flag and a config key, with the right dest")
    ctx.rule("R-CONFIG-K3", "sentinel parser mirrors the main parser for tracked dests and knows every short option")
    ctx.rule("R-CONFIG-K4", "auto-locked set == --auto preset; width and discovery settings are not locked")
    ctx.rule("R-CONFIG-K5", "search order .flowmark.toml > flowmark.toml > pyproject.toml[tool.flowmark], nearest directory first")
    ctx.rule("R-CONFIG-K6", "merge skip guards are implied by their atoms (truth table); setattr stores the config value")
    ctx.rule("R-CONFIG-K7", "kebab->snake table consistent with the config fields; unknown keys warn")
    ctx.rule("R-CONFIG-K8", "main merges the loaded config, with the parsed explicit flags, before the options are consumed")
    ctx.rule("R-OPTFLOW", "Options fields are bound from the parsed namespace; main hands them on unchanged")
    ctx.run(config.check_config)
    ctx.run(optflow.check_main_call)
    ctx.run(resolver_binding)
    ctx.run(cleanups.check_spacing_arms)
    ctx.assume("argparse semantics: dest derivation, short-option clustering, parse_known_args; tomllib parses TOML correctly")


def resolver_binding(ctx: Ctx) -> None:
    """The discovery settings of the merged options reach FileResolverConfig by identity."""
    import ast

    from ..dataflow import bind_call, fmt_origin, origins
    from ..rules.common import where
    from ..rules.optflow import _is_options_origin

    repo, prog = ctx.repo, ctx.prog
    fi = repo.func("flowmark.cli:_resolve_files") if "flowmark.cli:_resolve_files" in repo.functions else None
    cands = [fi] if fi else [f for f in repo.functions.values() if f.module.name == "flowmark.cli"]
    found = 0
    for f in cands:
        if isinstance(f.node, ast.Lambda):
            continue
        flow = prog.flow(f)
        for n, c in flow.all_calls():
            r = repo.resolve_expr(c.func, f.module, f) if isinstance(c.func, (ast.Name, ast.Attribute)) else None
            if getattr(r, "qual", None) == "flowmark.file_resolver.types:FileResolverConfig":
                found += 1
                for kw in c.keywords:
                    org = origins(prog, f, kw.value, n)
                    ok = bool(org) and all(o[0] == "attr" and o[2] == kw.arg and _is_options_origin(ctx, o[1]) for o in org)
                    ctx.ob("R-OPTFLOW", f"{f.qual} -> FileResolverConfig :: {kw.arg}", ok,
                           f"resolver setting `{kw.arg}` must be options.{kw.arg}; it is " + ", ".join(fmt_origin(o) for o in org),
                           where(f, kw.value))
    ctx.require("R-OPTFLOW", "FileResolverConfig construction in flowmark.cli", found, 1)
