"""Entry point: ./check <property id> [--thorough] [--replay <file>]"""

from __future__ import annotations

import importlib
import json
import os
import sys
import traceback

from .dataflow import Program
from .loader import AnalysisError, Repo
from .report import Ctx, finish

CLAIMED = [f"C{i:02d}" for i in range(1, 19) if i != 2]  # C02 is not applicable (DESIGN.md)


def run_property(prop: str, tier: str, replay: dict | None = None) -> int:
    try:
        repo = Repo()
        prog = Program(repo)
        ctx = Ctx(prop, tier, repo, prog)
        mod = importlib.import_module(f"sa.props.{prop.lower()}")
        mod.run(ctx)
        return finish(ctx, mod.EXPLANATION, replay)
    except AnalysisError as e:
        print(f"ANALYSIS-ERROR property={prop} {e}")
        return 2
    except Exception as e:  # noqa: BLE001 - a crash of the analyser is not a verdict
        traceback.print_exc()
        print(f"ANALYSIS-ERROR property={prop} analyser crashed: {type(e).__name__}: {e}")
        return 2


def main(argv: list[str]) -> int:
    args = [a for a in argv if not a.startswith("--")]
    if not args:
        print("usage: check <C01..C18|all> [--thorough] [--replay <file>]")
        return 2
    tier = "thorough" if "--thorough" in argv or os.environ.get("VERIF_TIER") == "thorough" else "quick"
    replay = None
    if "--replay" in argv:
        i = argv.index("--replay")
        replay = json.loads(open(argv[i + 1]).read())
        args = [a for a in args if a != argv[i + 1]]
    prop = args[0].upper()
    if prop == "ALL":
        rc = 0
        for p in CLAIMED:
            rc = max(rc, run_property(p, tier))
        return rc
    if prop not in CLAIMED:
        print(f"ANALYSIS-ERROR property={prop} is not claimed (see MANIFEST.json not_applicable)")
        return 2
    return run_property(prop, tier, replay)


if __name__ == "__main__":
    sys.exit(main(sys.argv[1:]))
