"""Entry point: ./check <property id> [--thorough] [--replay <file>]"""

from __future__ import annotations

import importlib
import json
import os
import sys
import traceback

from .dataflow import Program
from .loader import AnalysisError, Repo
from .report import Ctx, finish

CLAIMED = [f"C{i:02d}" for i in range(1, 19) if i != 2]  # C02 is not applicable (DESIGN.md)


def run_property(prop: str, tier: str, replay: dict | None = None) -> int:
    try:
        repo = Repo()
        prog = Program(repo)
        ctx = Ctx(prop, tier, repo, prog)
        mod = importlib.import_module(f"sa.props.{prop.lower()}")
        mod.run(ctx)
        if tier == "thorough" and replay is None and not os.environ.get("VERIF_NO_EVIDENCE"):
            # checker self-test on scratch copies of the *current* tree: every confirmed rule instance must fire on its
            # mutant and stay silent on behaviour-preserving refactors. Informational: it never changes the verdict.
            try:
                from .selftest.run import selftest

                st = selftest([prop])
                ctx.note("selftest", {
                    "mutants_run": st["mutants"]["run"], "mutants_detected": st["mutants"]["detected"],
                    "mutants_missed": [m["id"] for m in st["mutants"]["missed"]], "mutants_skipped": st["mutants"]["skipped"],
                    "benign_run": st["benign"]["run"], "benign_silent": st["benign"]["silent"],
                    "benign_alarms": [b["id"] for b in st["benign"]["alarms"]], "benign_skipped": st["benign"]["skipped"],
                })
                print(f"selftest {prop}: mutants detected {st['mutants']['detected']}/{st['mutants']['run']}, "
                      f"benign silent {st['benign']['silent']}/{st['benign']['run']}")
                for m in st["mutants"]["missed"]:
                    print(f"SELFTEST-WARNING property={prop} mutant {m['id']} was not reported")
                for b in st["benign"]["alarms"]:
                    print(f"SELFTEST-WARNING property={prop} benign refactor {b['id']} changed the verdict")
            except Exception as e:  # noqa: BLE001
                print(f"SELFTEST-WARNING property={prop} self-test could not run: {e}")
        return finish(ctx, mod.EXPLANATION, replay)
    except AnalysisError as e:
        print(f"ANALYSIS-ERROR property={prop} {e}")
        return 2
    except Exception as e:  # noqa: BLE001 - a crash of the analyser is not a verdict
        traceback.print_exc()
        print(f"ANALYSIS-ERROR property={prop} analyser crashed: {type(e).__name__}: {e}")
        return 2


def main(argv: list[str]) -> int:
    args = [a for a in argv if not a.startswith("--")]
    if not args:
        print("usage: check <C01..C18|all> [--thorough] [--replay <file>]")
        return 2
    tier = "thorough" if "--thorough" in argv or os.environ.get("VERIF_TIER") == "thorough" else "quick"
    replay = None
    if "--replay" in argv:
        i = argv.index("--replay")
        replay = json.loads(open(argv[i + 1]).read())
        args = [a for a in args if a != argv[i + 1]]
    prop = args[0].upper()
    if prop == "ALL":
        rc = 0
        for p in CLAIMED:
            rc = max(rc, run_property(p, tier))
        return rc
    if prop not in CLAIMED:
        print(f"ANALYSIS-ERROR property={prop} is not claimed (see MANIFEST.json not_applicable)")
        return 2
    return run_property(prop, tier, replay)


if __name__ == "__main__":
    sys.exit(main(sys.argv[1:]))
