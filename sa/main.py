"""Entry point: ./check <property id> [--thorough] [--replay <file>]"""

from __future__ import annotations

import importlib
import json
import os
import sys
import traceback

from .dataflow import Program
from .loader import AnalysisError, Repo
from .report import Ctx, finish

CLAIMED = [f"C{i:02d}" for i in range(1, 19) if i != 2]  # C02 is not applicable (DESIGN.md)


def _named_in_rules(repo) -> set[str]:
    """Functions whose name is spelled in the rule sources: they are anchors of some rule and stay functions in the inlined view."""
    import re
    from pathlib import Path

    words: set[str] = set()
    here = Path(__file__).parent
    for f in list((here / "rules").glob("*.py")) + list((here / "props").glob("*.py")):
        words |= set(re.findall(r"[A-Za-z_][A-Za-z0-9_]*", f.read_text()))
    return {q for q, fi in repo.functions.items() if fi.name in words}


def _second_opinion(prop: str, tier: str, mod, ctx: Ctx) -> None:
    """Re-evaluate failing obligations on the inlined view of the repository (private helpers spliced into their
    callers). Both programs are equivalent, so an obligation that holds there holds; "extract helper" refactorings are
    thereby invisible to rules that look at one function at a time. An obligation of view A is cleared when view B has
    the same (rule, construct) key discharged, or - if the key does not exist there because the helper it names was
    inlined away - when view B has obligations of that rule and all of them are discharged."""
    from .inline import build_inlined_repo
    from .report import load_known, _matches

    known = load_known()
    failing = [o for o in ctx.obligations if not o.ok and not any(_matches(e, prop, o) for e in known)]
    if (not failing and not ctx.analysis_errors) or os.environ.get("VERIF_NO_INLINE"):
        return
    try:
        repo_b, stats = build_inlined_repo(keep=set(getattr(ctx.repo, "requested", set())) | _named_in_rules(ctx.repo))
        ctx_b = Ctx(prop, "quick", repo_b, Program(repo_b))
        mod.run(ctx_b)
    except Exception as e:  # noqa: BLE001 - the second opinion is optional
        ctx.note("inlined_view", f"not available: {type(e).__name__}: {e}")
        return
    import re as _re

    def base_key(o) -> tuple[str, str]:
        # sites with the same text are told apart by an ordinal (" #2"); ordinals of the two views need not line up, so the
        # comparison is made on the family of all sites with that text
        return (o.rule, _re.sub(r" #\d+$", "", o.construct))

    by_key: dict[tuple[str, str], list] = {}
    by_rule: dict[str, list] = {}
    for o in ctx_b.obligations:
        by_key.setdefault(base_key(o), []).append(o)
        by_rule.setdefault(o.rule, []).append(o)

    def b_ok(o) -> bool:
        return o.ok or any(_matches(e, prop, o) for e in known)

    if os.environ.get("VERIF_DEBUG_VIEWS"):
        for o in ctx_b.obligations:
            if not b_ok(o):
                print(f"  [inlined view] FAIL [{o.rule}] {o.construct}: {o.detail[:200]}")
        for e in ctx_b.analysis_errors:
            print(f"  [inlined view] ANALYSIS-ERROR {e}")
    cleared = 0
    for o in failing:
        same = by_key.get(base_key(o))
        if same is not None:
            if all(b_ok(x) for x in same):
                o.ok = True
        else:
            rule_obs = by_rule.get(o.rule, [])
            if rule_obs and all(b_ok(x) for x in rule_obs):
                o.ok = True
        if o.ok:
            cleared += 1
            o.detail = "[holds on the inlined view: private helpers spliced into their callers] " + o.detail
    if ctx.analysis_errors and not ctx_b.analysis_errors:
        # a rule group could not find its anchors in the source as written but did in the equivalent inlined program:
        # its obligations (discharged or not) are taken from there, so that nothing passes by not being looked at
        have = {o.key() for o in ctx.obligations}
        adopted = 0
        for o in ctx_b.obligations:
            if o.key() not in have:
                o.detail = "[decided on the inlined view: private helpers spliced into their callers] " + o.detail
                ctx.obligations.append(o)
                adopted += 1
        ctx.note("analysis_errors_cleared_by_inlined_view", {"errors": list(ctx.analysis_errors), "obligations_adopted": adopted})
        ctx.analysis_errors = []
    ctx.note("inlined_view", {"helpers_inlined": stats.get("inlined_calls"), "functions_changed": stats.get("functions_changed"),
                              "obligations": len(ctx_b.obligations), "failing_in_source_view": len(failing), "cleared": cleared})


def run_property(prop: str, tier: str, replay: dict | None = None) -> int:
    try:
        repo = Repo()
        prog = Program(repo)
        ctx = Ctx(prop, tier, repo, prog)
        mod = importlib.import_module(f"sa.props.{prop.lower()}")
        mod.run(ctx)
        if os.environ.get("VERIF_VIEW") == "inlined":
            # debugging aid: the verdict of the inlined view alone (never used by the registered commands)
            from .inline import build_inlined_repo

            repo_b, _ = build_inlined_repo(keep=set(getattr(repo, "requested", set())) | _named_in_rules(repo))
            ctx = Ctx(prop, tier, repo_b, Program(repo_b))
            mod.run(ctx)
        else:
            _second_opinion(prop, tier, mod, ctx)
        if tier == "thorough" and replay is None and not os.environ.get("VERIF_NO_EVIDENCE"):
            # checker self-test on scratch copies of the *current* tree: every confirmed rule instance must fire on its
            # mutant and stay silent on behaviour-preserving refactors. Informational: it never changes the verdict.
            try:
                from .selftest.run import selftest

                st = selftest([prop])
                ctx.note("selftest", {
                    "mutants_run": st["mutants"]["run"], "mutants_detected": st["mutants"]["detected"],
                    "mutants_missed": [m["id"] for m in st["mutants"]["missed"]], "mutants_skipped": st["mutants"]["skipped"],
                    "benign_run": st["benign"]["run"], "benign_silent": st["benign"]["silent"],
                    "benign_alarms": [b["id"] for b in st["benign"]["alarms"]], "benign_skipped": st["benign"]["skipped"],
                })
                print(f"selftest {prop}: mutants detected {st['mutants']['detected']}/{st['mutants']['run']}, "
                      f"benign silent {st['benign']['silent']}/{st['benign']['run']}")
                for m in st["mutants"]["missed"]:
                    print(f"SELFTEST-WARNING property={prop} mutant {m['id']} was not reported")
                for b in st["benign"]["alarms"]:
                    print(f"SELFTEST-WARNING property={prop} benign refactor {b['id']} changed the verdict")
            except Exception as e:  # noqa: BLE001
                print(f"SELFTEST-WARNING property={prop} self-test could not run: {e}")
        return finish(ctx, mod.EXPLANATION, replay)
    except AnalysisError as e:
        print(f"ANALYSIS-ERROR property={prop} {e}")
        return 2
    except Exception as e:  # noqa: BLE001 - a crash of the analyser is not a verdict
        traceback.print_exc()
        print(f"ANALYSIS-ERROR property={prop} analyser crashed: {type(e).__name__}: {e}")
        return 2


def main(argv: list[str]) -> int:
    args = [a for a in argv if not a.startswith("--")]
    if not args:
        print("usage: check <C01..C18|all> [--thorough] [--replay <file>]")
        return 2
    tier = "thorough" if "--thorough" in argv or os.environ.get("VERIF_TIER") == "thorough" else "quick"
    replay = None
    if "--replay" in argv:
        i = argv.index("--replay")
        replay = json.loads(open(argv[i + 1]).read())
        args = [a for a in args if a != argv[i + 1]]
    prop = args[0].upper()
    if prop == "ALL":
        rc = 0
        for p in CLAIMED:
            rc = max(rc, run_property(p, tier))
        return rc
    if prop not in CLAIMED:
        print(f"ANALYSIS-ERROR property={prop} is not claimed (see MANIFEST.json not_applicable)")
        return 2
    return run_property(prop, tier, replay)


if __name__ == "__main__":
    sys.exit(main(sys.argv[1:]))
