"""Path-sensitive evaluation of small decision code.

Many rules of the renderer ask "under this valuation of a few predicates, which constant does the code produce?" -
table alignment, list-spacing arms, soft/hard breaks. The decision may be written as an if/elif chain, as a conditional
expression, with boolean temporaries, in a helper function called from a loop or a comprehension. `Decider` enumerates
the CFG paths of the code under a valuation and evaluates the few expression forms that carry the result:

  value  ::= "const" | name | A if T else B | helper(args) | (v1, v2)[i]
  test   ::= atom | name (a boolean temporary) | not T | T and U | T or U

`atom(leaf, aliases)` decides the leaves (True / False / None = unknown, both branches are followed).
An outcome of UNKNOWN means the code left the recognised forms; callers decide what that means for their rule.
"""

from __future__ import annotations

import ast
from typing import Callable

from .cfg import Node
from .dataflow import Program
from .loader import FuncInfo

class Sym(str):
    """A symbolic (non-literal) value named by a rule, e.g. Sym("BASE"); compares equal to the plain string."""


class Tup(tuple):
    """A tuple *value* (return a, b) - as opposed to the tagged tuples ("cat", ...), ("from", ...) that describe a value."""


class ListVal(tuple):
    """A list *value* under construction: `parts = [a]; parts.append(b)` is ListVal((a, b)); `"".join(parts)` concatenates."""


UNKNOWN = Sym("<unknown>")
Atom = Callable[[ast.AST, frozenset], "bool | None"]


def bool_eval(expr: ast.AST, atom) -> bool | None:
    if isinstance(expr, ast.BoolOp):
        vals = [bool_eval(v, atom) for v in expr.values]
        if isinstance(expr.op, ast.And):
            if any(v is False for v in vals):
                return False
            return True if all(v is True for v in vals) else None
        if any(v is True for v in vals):
            return True
        return False if all(v is False for v in vals) else None
    if isinstance(expr, ast.UnaryOp) and isinstance(expr.op, ast.Not):
        v = bool_eval(expr.operand, atom)
        return None if v is None else not v
    if isinstance(expr, ast.Constant) and isinstance(expr.value, bool):
        return expr.value
    return atom(expr)


class Decider:
    def __init__(self, prog: Program, atom: Atom, max_depth: int = 3, value_leaf=None, symbolic: set[str] | None = None,
                 track_aug: bool = True, derive: bool = False, opaque: set[str] | None = None) -> None:
        self.prog = prog
        self.atom = atom
        self.max_depth = max_depth
        # qualnames of one-argument repo functions kept symbolic: f(x) evaluates to ("call", qual, value of x)
        self.symbolic = symbolic or set()
        self._cur: tuple | None = None
        # x += v: concatenate onto the tracked value (True) or keep the base value and only report the event (False)
        self.track_aug = track_aug
        # unknown operations evaluate to ("from", {named values they were computed from}) instead of UNKNOWN
        self.derive = derive
        # qualnames of package functions that are not entered (their result is unknown / derived from the arguments)
        self.opaque = opaque or set()
        # value_leaf(fi, expr, aliases) -> hashable | None: lets a rule name non-constant results (e.g. "element.tight")
        self.value_leaf = value_leaf

    # ------------------------------------------------------------------ expressions
    def ev(self, fi: FuncInfo, e: ast.AST | None, env: dict, benv: dict, aliases: frozenset, depth: int) -> frozenset:
        if e is None:
            return frozenset({UNKNOWN})
        if self.value_leaf is not None and not (isinstance(e, ast.Name) and e.id in env):
            v = self.value_leaf(fi, e, aliases)
            if v is not None:
                return frozenset({Sym(v) if type(v) is str else v})
        if isinstance(e, ast.Constant):
            return frozenset({e.value})
        if isinstance(e, ast.Name):
            if e.id in env:
                return env[e.id]
            if e.id in benv:
                return frozenset({benv[e.id]})
            if self._cur is not None:
                ex = expand_expr(self.prog, fi, e, self._cur[1], depth=1) if self._cur[0] is fi else e
                if isinstance(ex, ast.Constant):
                    return frozenset({ex.value})
            return frozenset({UNKNOWN})
        if isinstance(e, ast.Attribute):
            k = _chain(e)
            if k is not None and k in env:
                return env[k]
        if isinstance(e, ast.Subscript) and isinstance(e.value, ast.Name) and e.value.id not in env:
            # TABLE[key] with TABLE a module-level dict literal and the key decided by the valuation: TABLE[(a, b)] / TABLE[a]
            from .loader import ConstInfo

            r = self.prog.repo.lookup(e.value.id, fi.module, fi)
            lit = getattr(r.assigns[0], "value", None) if isinstance(r, ConstInfo) and len(r.assigns) == 1 else None
            if isinstance(lit, ast.Dict):
                atom = self._atom(benv, aliases)

                def key_of(k: ast.AST):
                    if isinstance(k, ast.Tuple):
                        parts = [key_of(x) for x in k.elts]
                        return None if any(p is None for p in parts) else tuple(parts)
                    if isinstance(k, ast.Constant):
                        return ("c", k.value)
                    b = bool_eval(k, atom)
                    return None if b is None else ("c", b)

                want = key_of(e.slice)
                if want is not None:
                    for k, v in zip(lit.keys, lit.values):
                        if k is not None and key_of(k) == want:
                            return self.ev(fi, v, env, benv, aliases, depth)
        if isinstance(e, (ast.List, ast.Tuple)) and isinstance(e.ctx, ast.Load) and len(e.elts) <= 8 and not any(isinstance(x, ast.Starred) for x in e.elts) \
                and isinstance(e, ast.List):
            import itertools
            parts_ = [self.ev(fi, x, env, benv, aliases, depth) for x in e.elts]
            n_ = 1
            for p_ in parts_:
                n_ *= len(p_)
            if n_ <= 16:
                return frozenset(ListVal(c) for c in itertools.product(*parts_))
        if isinstance(e, ast.Call) and isinstance(e.func, ast.Attribute) and e.func.attr == "join" and len(e.args) == 1 and not e.keywords:
            seps = self.ev(fi, e.func.value, env, benv, aliases, depth)
            arg0 = e.args[0]
            if isinstance(arg0, ast.Tuple) and isinstance(arg0.ctx, ast.Load):
                arg0 = ast.copy_location(ast.List(elts=arg0.elts, ctx=ast.Load()), arg0)  # "".join((a, b)) == "".join([a, b])
            lists = self.ev(fi, arg0, env, benv, aliases, depth)
            if all(type(sp) is str for sp in seps) and all(isinstance(lv, ListVal) for lv in lists) and len(seps) * len(lists) <= 16:
                out_ = set()
                for sp in seps:
                    for lv in lists:
                        acc_ = ""
                        for i_, item in enumerate(lv):
                            if i_:
                                acc_ = _cat(acc_, sp)
                            acc_ = _cat(acc_, item)
                        out_.add(acc_)
                return frozenset(out_)
        if isinstance(e, ast.BinOp) and isinstance(e.op, ast.Add):
            ls, rs = self.ev(fi, e.left, env, benv, aliases, depth), self.ev(fi, e.right, env, benv, aliases, depth)
            if len(ls) * len(rs) <= 16 and all(isinstance(x, ListVal) for x in ls | rs):
                return frozenset(ListVal(tuple(l) + tuple(r)) for l in ls for r in rs)
            if len(ls) * len(rs) <= 16:
                return frozenset(_cat(l, r) for l in ls for r in rs)
        if isinstance(e, ast.JoinedStr):
            parts: list[frozenset] = []
            for v in e.values:
                if isinstance(v, ast.Constant):
                    parts.append(frozenset({v.value}))
                elif isinstance(v, ast.FormattedValue) and v.format_spec is None and v.conversion == -1:
                    parts.append(self.ev(fi, v.value, env, benv, aliases, depth))
                else:
                    parts.append(frozenset({UNKNOWN}))
            acc: frozenset = frozenset({""})
            for p in parts:
                if len(acc) * len(p) > 16:
                    return frozenset({UNKNOWN})
                acc = frozenset(_cat(a, b) for a in acc for b in p)
            return acc
        if isinstance(e, ast.IfExp):
            t = bool_eval(e.test, self._atom(benv, aliases))
            if t is True:
                return self.ev(fi, e.body, env, benv, aliases, depth)
            if t is False:
                return self.ev(fi, e.orelse, env, benv, aliases, depth)
            return self.ev(fi, e.body, env, benv, aliases, depth) | self.ev(fi, e.orelse, env, benv, aliases, depth)
        if isinstance(e, ast.Call) and self.symbolic:
            t = self.prog.resolve_call(fi, e)
            if isinstance(t, list) and len(t) == 1 and t[0].qual in self.symbolic and len(e.args) == 1 and not e.keywords:
                return frozenset(("call", t[0].qual, x) for x in self.ev(fi, e.args[0], env, benv, aliases, depth))
        if isinstance(e, ast.Call) and depth < self.max_depth:
            t = self.prog.resolve_call(fi, e)
            if isinstance(t, list) and len(t) == 1 and not isinstance(t[0].node, ast.Lambda) and t[0].qual not in self.opaque:
                callee = t[0]
                al = self._bind_aliases(fi, callee, e, aliases)
                res = self.func_outcomes(callee, al, depth + 1)
                if not (self.derive and any(v == UNKNOWN for v in res)):
                    return res
                # (derive mode) the helper could not be evaluated: fall through to "computed from its arguments"
        b = bool_eval(e, self._atom(benv, aliases))
        if b is not None:
            return frozenset({b})
        if self.derive and isinstance(e, (ast.Call, ast.BinOp, ast.Attribute, ast.Subscript, ast.JoinedStr)):
            # an operation this evaluator does not model: its result is "something computed from" the named values that
            # enter it (receiver, arguments, operands)
            roots: set = set()
            subs: list[ast.AST] = []
            if isinstance(e, ast.Call):
                subs = list(e.args) + [k.value for k in e.keywords] + ([e.func.value] if isinstance(e.func, ast.Attribute) else [])
            elif isinstance(e, ast.BinOp):
                subs = [e.left, e.right]
            elif isinstance(e, (ast.Attribute, ast.Subscript)):
                subs = [e.value]
            elif isinstance(e, ast.JoinedStr):
                subs = [v.value for v in e.values if isinstance(v, ast.FormattedValue)]
            for x in subs:
                for v in self.ev(fi, x, env, benv, aliases, depth):
                    roots |= roots_of(v)
            if roots:
                return frozenset({("from", frozenset(roots))})
        return frozenset({UNKNOWN})

    def _atom(self, benv: dict, aliases: frozenset):
        def atom(leaf: ast.AST) -> bool | None:
            # the valuation wins over what the code assigned: a rule may *assume* "this is a later iteration"
            v = self.atom(leaf, aliases)
            if v is None and isinstance(leaf, ast.Name) and leaf.id in benv:
                return benv[leaf.id]
            if v is None and self._cur is not None and not isinstance(leaf, ast.Name) \
                    and any(isinstance(x, ast.Name) for x in ast.walk(leaf)):
                # read through single-assignment temporaries (k = len(xs) - 1; i == k)
                fi, node = self._cur
                try:
                    ex = expand_expr(self.prog, fi, leaf, node)
                except Exception:  # noqa: BLE001
                    return None
                if ast.dump(ex) != ast.dump(leaf):
                    v = bool_eval(ex, lambda l2: self.atom(l2, aliases))
            return v
        return atom

    def _bind_aliases(self, fi: FuncInfo, callee: FuncInfo, call: ast.Call, aliases: frozenset) -> frozenset:
        """Alias names are `name` or `name.attr...` texts that denote the subject(s) of the decision; rebind through the call."""
        from .dataflow import bind_call
        out = {a for a in aliases if a.partition("=")[2].split(".")[0] == "self"} if isinstance(call.func, ast.Attribute) else set()
        pairs = [(p, a) for p, a in bind_call(callee, call).items() if not p.startswith("*")]
        for p, a in pairs:
            txt = _chain(a)
            if txt is None:
                continue
            for al in aliases:
                # aliases are stored as "role=chain": the role survives, the chain is rewritten
                role, _, chain = al.partition("=")
                if chain == txt:
                    out.add(f"{role}={p}")
                elif chain.startswith(txt + "."):
                    out.add(f"{role}={p}{chain[len(txt):]}")
        return frozenset(out)

    # ------------------------------------------------------------------ statements
    def walk(self, fi: FuncInfo, start: Node, stop, aliases: frozenset, depth: int = 0, env0: dict | None = None, loops: str = "end"):
        """Enumerate paths from `start` until stop(node) (not tested on start) or a return.
        Yields (end node or None, env, benv, outs) where outs are the values appended / returned on the path."""
        results = []
        stack = [(start, dict(env0 or {}), {}, (), (start.id,), aliases)]
        budget = 4000
        while stack and budget > 0:
            budget -= 1
            n, env, benv, outs, seen, aliases = stack.pop()
            self._cur = (fi, n)
            env = {**env, "__aliases__": aliases}
            if len(seen) > 1 and stop is not None and stop(n):
                results.append((n, env, benv, outs))
                continue
            if n.kind == "stmt":
                a = n.ast
                if isinstance(a, (ast.Assign, ast.AnnAssign)) and getattr(a, "value", None) is not None:
                    tg = a.targets[0] if isinstance(a, ast.Assign) else a.target
                    tgk = _chain(tg)
                    if tgk is not None and not isinstance(tg, ast.Name):
                        # store into an attribute (self.x = ...): remembered in the environment and reported as an event
                        v = self.ev(fi, a.value, env, benv, aliases, depth)
                        env = {**env, tgk: v}
                        outs = outs + (("store", tgk, v),)
                    if isinstance(tg, ast.Name):
                        v = self.ev(fi, a.value, env, benv, aliases, depth)
                        if any(isinstance(x, ListVal) for x in v) and self._list_escapes(fi, tg.id):
                            v = frozenset({UNKNOWN})  # the list is changed in ways this evaluator does not model
                        env = {**env, tg.id: v}
                        # the name is rebound: it no longer denotes what it was an alias of
                        aliases = frozenset(al for al in aliases if al.partition("=")[2] != tg.id and not al.partition("=")[2].startswith(tg.id + "."))
                        b = bool_eval(a.value, self._atom(benv, aliases))
                        benv = {k: x for k, x in benv.items() if k != tg.id}
                        if b is not None:
                            benv[tg.id] = b
                        txt = _chain(a.value)
                        if txt is not None:
                            aliases = aliases | frozenset(f"{al.partition('=')[0]}={tg.id}{al.partition('=')[2][len(txt):]}"
                                                          for al in aliases if al.partition("=")[2] == txt or al.partition("=")[2].startswith(txt + "."))
                    elif isinstance(tg, ast.Tuple) and all(isinstance(x, ast.Name) for x in tg.elts):
                        if isinstance(a.value, ast.Tuple) and len(a.value.elts) == len(tg.elts):
                            vals = [self.ev(fi, x, env, benv, aliases, depth) for x in a.value.elts]
                        else:
                            whole = self.ev(fi, a.value, env, benv, aliases, depth)
                            vals = []
                            for i in range(len(tg.elts)):
                                vals.append(frozenset(w[i] if isinstance(w, Tup) and len(w) == len(tg.elts) else UNKNOWN for w in whole))
                        # components that are not understood stay unbound (a rule's value_leaf may still name them)
                        env = {k: v for k, v in env.items() if k not in {x.id for x in tg.elts}}
                        env.update({x.id: v for x, v in zip(tg.elts, vals) if v != frozenset({UNKNOWN})})
                elif isinstance(a, ast.AugAssign) and isinstance(a.target, ast.Name):
                    outs = outs + (("aug", a.target.id, n),)
                    if not self.track_aug:
                        pass
                    elif isinstance(a.op, ast.Add) and a.target.id in env:
                        # x += v on a tracked string value: concatenation
                        rs = self.ev(fi, a.value, env, benv, aliases, depth)
                        ls = env[a.target.id]
                        if len(ls) * len(rs) <= 16:
                            env = {**env, a.target.id: frozenset(_cat(l, r) for l in ls for r in rs)}
                        else:
                            env = {**env, a.target.id: frozenset({UNKNOWN})}
                    elif a.target.id in env:
                        env = {**env, a.target.id: frozenset({UNKNOWN})}
                elif isinstance(a, ast.Expr) and isinstance(a.value, ast.Call) and isinstance(a.value.func, ast.Attribute) \
                        and a.value.func.attr in ("append", "add") and len(a.value.args) == 1:
                    item = self.ev(fi, a.value.args[0], env, benv, aliases, depth)
                    outs = outs + (item,)
                    recv = a.value.func.value
                    if a.value.func.attr == "append" and isinstance(recv, ast.Name) and recv.id in env and env[recv.id] \
                            and all(isinstance(lv, ListVal) for lv in env[recv.id]):
                        if len(env[recv.id]) * len(item) <= 16:
                            env = {**env, recv.id: frozenset(ListVal(tuple(lv) + (it,)) for lv in env[recv.id] for it in item)}
                        else:
                            env = {**env, recv.id: frozenset({UNKNOWN})}
                elif isinstance(a, ast.Expr) and isinstance(a.value, ast.Call) and isinstance(a.value.func, ast.Attribute) \
                        and a.value.func.attr == "extend" and len(a.value.args) == 1 and isinstance(a.value.func.value, ast.Name) \
                        and a.value.func.value.id in env and all(isinstance(lv, ListVal) for lv in env[a.value.func.value.id]):
                    more = self.ev(fi, a.value.args[0], env, benv, aliases, depth)
                    nm_ = a.value.func.value.id
                    if all(isinstance(m_, ListVal) for m_ in more) and len(env[nm_]) * len(more) <= 16:
                        env = {**env, nm_: frozenset(ListVal(tuple(lv) + tuple(m_)) for lv in env[nm_] for m_ in more)}
                    else:
                        env = {**env, nm_: frozenset({UNKNOWN})}
                elif isinstance(a, ast.Return):
                    v = a.value
                    if isinstance(v, ast.Tuple):
                        parts = [self.ev(fi, x, env, benv, aliases, depth) for x in v.elts]
                        import itertools
                        val = frozenset(Tup(c) for c in itertools.islice(itertools.product(*parts), 64))
                    else:
                        val = self.ev(fi, v, env, benv, aliases, depth)
                    results.append((n, env, benv, outs + (val,)))
                    continue
            succ = list(n.succ)
            if n.kind == "test":
                t = bool_eval(n.ast, self._atom(benv, aliases))
                if t is not None:
                    succ = [(s, lab) for s, lab in succ if lab == ("T" if t else "F")]
            if not succ:
                results.append((n if n.kind == "raise" else None, env, benv, outs))
            for s, _lab in succ:
                if s.id in seen and s.kind in ("for", "test", "while"):
                    flow = self.prog.flow(fi)
                    body = flow.loop_body_nodes(s) if loops == "havoc" and s is not start else set()
                    if body:
                        # second arrival at a loop head: the loop is left with everything its body assigns unknown
                        assigned = {d.var for b in body | {s} for d in flow.defs_at.get(b, [])}
                        env2 = {k: (frozenset({UNKNOWN}) if k in assigned or k.split(".")[0] in assigned else v) for k, v in env.items() if k != "__aliases__"}
                        benv2 = {k: v for k, v in benv.items() if k not in assigned}
                        al2 = frozenset(al for al in aliases if al.partition("=")[2].split(".")[0] not in assigned)
                        for x, lab2 in s.succ:
                            if lab2 in ("done", "F") and x not in body:
                                stack.append((x, env2, benv2, outs, seen + (x.id,), al2))
                        continue
                    results.append((s, env, benv, outs))
                    continue
                stack.append((s, env, benv, outs, seen + (s.id,), aliases))
        if budget <= 0:
            results.append((None, {}, {}, (frozenset({UNKNOWN}),)))
        return results

    def _list_escapes(self, fi: FuncInfo, name: str) -> bool:
        """Is the local list `name` touched other than by append / extend / being read (joined, iterated, returned)?"""
        for n in ast.walk(fi.node):
            if isinstance(n, ast.Call) and isinstance(n.func, ast.Attribute) and isinstance(n.func.value, ast.Name) and n.func.value.id == name \
                    and n.func.attr not in ("append", "extend", "copy", "count", "index"):
                return True
            if isinstance(n, (ast.Subscript,)) and isinstance(n.value, ast.Name) and n.value.id == name and isinstance(n.ctx, (ast.Store, ast.Del)):
                return True
            if isinstance(n, ast.AugAssign) and isinstance(n.target, ast.Name) and n.target.id == name:
                return True
            if isinstance(n, ast.Call) and any(isinstance(x, ast.Name) and x.id == name for x in list(n.args) + [k.value for k in n.keywords]) \
                    and not (isinstance(n.func, ast.Attribute) and n.func.attr == "join") and not (isinstance(n.func, ast.Name) and n.func.id in ("len", "list", "tuple", "sorted", "enumerate", "reversed", "any", "all")):
                return True
        return False

    def func_outcomes(self, fi: FuncInfo, aliases: frozenset, depth: int = 0, env0: dict | None = None) -> frozenset:
        """Values the function may return under the valuation."""
        flow = self.prog.flow(fi)
        out: set = set()
        for end, _env, _benv, outs in self.walk(fi, flow.cfg.entry, None, aliases, depth, env0=env0, loops="havoc"):
            if end is not None and end.kind == "stmt" and isinstance(end.ast, ast.Return) and outs:
                out |= outs[-1]
            elif end is not None and end is flow.cfg.raise_exit:
                continue  # the path raises (a failed assert, an explicit raise): it returns nothing
            elif end is None or end.kind == "exit":
                out.add(None)
            else:
                out.add(UNKNOWN)
        return frozenset(out)


def roots_of(v) -> set:
    """The symbolic names (Sym) a value was built from."""
    if isinstance(v, Sym) and v != UNKNOWN:
        return {v}
    if isinstance(v, tuple) and v and v[0] == "cat":
        return roots_of(v[1]) | roots_of(v[2])
    if isinstance(v, tuple) and v and v[0] == "from":
        return set(v[1])
    if isinstance(v, tuple) and v and v[0] == "call":
        return roots_of(v[2])
    return set()


def _cat(a, b):
    """Concatenation of two symbolic string values; constants fold, "" is the unit."""
    if a == "":
        return b
    if b == "":
        return a
    if type(a) is str and type(b) is str:
        return a + b
    return ("cat", a, b)


def _chain(e: ast.AST) -> str | None:
    parts = []
    while isinstance(e, ast.Attribute):
        parts.append(e.attr)
        e = e.value
    if isinstance(e, ast.Name):
        parts.append(e.id)
        return ".".join(reversed(parts))
    return None


def alias_roles(aliases: frozenset) -> dict[str, set[str]]:
    out: dict[str, set[str]] = {}
    for al in aliases:
        role, _, chain = al.partition("=")
        out.setdefault(chain, set()).add(role)
    return out


def role_of(e: ast.AST, aliases: frozenset) -> set[str]:
    txt = _chain(e)
    if txt is None:
        return set()
    return alias_roles(aliases).get(txt, set())


# ------------------------------------------------------------------------------------------------------------------
# Position-in-loop predicates: "is this the first / the last iteration?" however it is spelled.
class LoopFacts:
    """What a `for` loop offers for telling the first (and last) iteration apart:
      flags  - local names that hold a constant on the first iteration and the opposite constant on all later ones
               (initialised before the loop, overwritten on every path through the body)
      latches - like flags, but flipped only on some paths ("no line has been emitted yet")
      index  - names bound to the 0-based index of enumerate(X)
      seq    - text of the iterated sequence X (for `index == len(X) - 1`)"""

    @classmethod
    def of_comprehension(cls, comp: ast.comprehension) -> "LoopFacts":
        """Facts of `for i, x in enumerate(X)` inside a comprehension (an index is all a comprehension can offer)."""
        self = cls.__new__(cls)
        self.head = None
        self.flags, self.latches, self.index, self.seq, self.seq_forms = {}, {}, set(), None, set()
        it = comp.iter
        if isinstance(it, ast.Call) and isinstance(it.func, ast.Name) and it.func.id == "enumerate" and it.args \
                and isinstance(comp.target, ast.Tuple) and comp.target.elts and isinstance(comp.target.elts[0], ast.Name):
            start = it.args[1] if len(it.args) > 1 else next((k.value for k in it.keywords if k.arg == "start"), None)
            if start is None or (isinstance(start, ast.Constant) and start.value == 0):
                self.index.add(comp.target.elts[0].id)
                self.seq = ast.unparse(it.args[0])
                self.seq_forms = {self.seq}
        return self

    def __init__(self, prog: Program, fi: FuncInfo, head: Node) -> None:
        flow = prog.flow(fi)
        self.head = head
        self.flags: dict[str, bool] = {}
        self.index: set[str] = set()
        self.seq: str | None = None
        self.seq_forms: set[str] = set()
        body = flow.loop_body_nodes(head)
        st = head.ast
        it = st.iter
        if isinstance(it, ast.Call) and isinstance(it.func, ast.Name) and it.func.id == "enumerate" and it.args \
                and isinstance(st.target, ast.Tuple) and st.target.elts and isinstance(st.target.elts[0], ast.Name):
            start = it.args[1] if len(it.args) > 1 else next((k.value for k in it.keywords if k.arg == "start"), None)
            if start is None or (isinstance(start, ast.Constant) and start.value == 0):
                name = st.target.elts[0].id
                stored = [n for n in body if n is not head and n.kind == "stmt" and any(
                    isinstance(x, ast.Name) and x.id == name and isinstance(x.ctx, ast.Store) for x in ast.walk(n.ast))]
                if not stored:
                    self.index.add(name)
                    self.seq = ast.unparse(it.args[0])
                    try:
                        self.seq_forms = {self.seq, ast.unparse(expand_expr(prog, fi, it.args[0], head))}
                    except Exception:  # noqa: BLE001
                        self.seq_forms = {self.seq}
        # flags
        self.latches: dict[str, bool] = {}  # name -> initial value, for booleans that flip (at some point) inside the loop and never back
        cands: dict[str, list[Node]] = {}
        for n in body:
            if n.kind == "stmt" and isinstance(n.ast, ast.Assign) and len(n.ast.targets) == 1 and isinstance(n.ast.targets[0], ast.Name) \
                    and isinstance(n.ast.value, ast.Constant) and isinstance(n.ast.value.value, bool):
                cands.setdefault(n.ast.targets[0].id, []).append(n)
        entries = [s for s, lab in head.succ if lab == "iter"]
        for name, nodes in cands.items():
            inner_vals = {n.ast.value.value for n in nodes}
            if len(inner_vals) != 1:
                continue
            # every other store to the name inside the loop disqualifies it
            other = [n for n in body if n not in nodes and n.kind in ("stmt", "for", "with") and n is not head and any(
                isinstance(x, ast.Name) and x.id == name and isinstance(x.ctx, ast.Store) for x in ast.walk(n.ast) if not isinstance(x, (ast.FunctionDef, ast.Lambda)))]
            if other:
                continue
            outer = [d for d in flow.reaching(head, name) if d.node not in body]
            if not outer or not all(d.kind == "assign" and isinstance(d.value, ast.Constant) and isinstance(d.value.value, bool) for d in outer):
                continue
            outer_vals = {d.value.value for d in outer}
            inner = next(iter(inner_vals))
            if outer_vals != {not inner}:
                continue
            self.latches[name] = not inner
            # overwritten on every complete trip through the body (a `continue` that skips it would keep "first" alive)
            if all(flow.cfg.path_avoiding(e, head, set(nodes)) is None for e in entries):
                self.flags[name] = not inner  # value on the first iteration

    # the comparison forms are decided by their truth table over small loops: names of `index` range over 0..n-1,
    # len(X) of the iterated sequence is n
    def _table(self, e: ast.AST) -> str | None:
        """"first" / "notfirst" / "last" / "notlast" if the comparison holds exactly on those iterations."""
        if not isinstance(e, ast.Compare) or len(e.ops) != 1:
            return None

        class Bad(Exception):
            pass

        def ev(x: ast.AST, i: int, n: int) -> int:
            if isinstance(x, ast.Constant) and isinstance(x.value, int) and not isinstance(x.value, bool):
                return x.value
            if isinstance(x, ast.Name) and x.id in self.index:
                return i
            if isinstance(x, ast.Call) and isinstance(x.func, ast.Name) and x.func.id == "len" and len(x.args) == 1 \
                    and ast.unparse(x.args[0]) in self.seq_forms:
                return n
            if isinstance(x, ast.BinOp) and isinstance(x.op, (ast.Add, ast.Sub)):
                a, b = ev(x.left, i, n), ev(x.right, i, n)
                return a + b if isinstance(x.op, ast.Add) else a - b
            raise Bad

        ops = {ast.Eq: lambda a, b: a == b, ast.GtE: lambda a, b: a >= b, ast.LtE: lambda a, b: a <= b, ast.Gt: lambda a, b: a > b,
               ast.Lt: lambda a, b: a < b, ast.NotEq: lambda a, b: a != b}
        f = ops.get(type(e.ops[0]))
        if f is None or not any(isinstance(x, ast.Name) and x.id in self.index for x in ast.walk(e)):
            return None
        rows = []
        try:
            for n in range(1, 6):
                for i in range(n):
                    rows.append((i, n, f(ev(e.left, i, n), ev(e.comparators[0], i, n))))
        except Bad:
            return None
        if all(v == (i == 0) for i, n, v in rows):
            return "first"
        if all(v == (i != 0) for i, n, v in rows):
            return "notfirst"
        if all(v == (i == n - 1) for i, n, v in rows):
            return "last"
        if all(v == (i != n - 1) for i, n, v in rows):
            return "notlast"
        return None

    def first_atom(self, first: bool):
        def atom(leaf: ast.AST, _aliases: frozenset = frozenset()) -> bool | None:
            if isinstance(leaf, ast.Name):
                if leaf.id in self.flags:
                    return self.flags[leaf.id] if first else not self.flags[leaf.id]
                if leaf.id in self.index:
                    return not first
            t = self._table(leaf)
            if t == "first":
                return first
            if t == "notfirst":
                return not first
            return None
        return atom

    def last_atom(self, last: bool):
        def atom(leaf: ast.AST, _aliases: frozenset = frozenset()) -> bool | None:
            t = self._table(leaf)
            if t == "last":
                return last
            if t == "notlast":
                return not last
            return None
        return atom


# ------------------------------------------------------------------------------------------------------------------
def expand_expr(prog: Program, fi: FuncInfo, expr: ast.AST, node: Node, depth: int = 4, strict: bool = True) -> ast.AST:
    """`expr` with single-assignment temporaries replaced by their defining expressions (a copy; the tree is not
    touched). `k = len(xs) - 1 ... i == k` reads as `i == len(xs) - 1`. A name is replaced only if exactly one
    definition reaches `node`, it is a plain assignment, and everything that definition reads still has the same
    reaching definitions at `node` (nothing it depends on was rebound or mutated in between). strict=False drops the
    last condition: the *shape* of the defining expression is then right, the values of its variables may be older."""
    from .inline import clone

    flow = prog.flow(fi)

    def same_inputs(value: ast.AST, at_def: Node) -> bool:
        for y in ast.walk(value):
            if isinstance(y, ast.Name) and isinstance(y.ctx, ast.Load):
                a = {d.id for d in flow.reaching(at_def, y.id)}
                b = {d.id for d in flow.reaching(node, y.id)}
                if a != b:
                    return False
        return True

    def go(e: ast.AST, d: int) -> ast.AST:
        if isinstance(e, ast.Name) and isinstance(e.ctx, ast.Load) and d > 0:
            defs = flow.reaching(node, e.id)
            if len(defs) == 1 and defs[0].kind == "assign" and defs[0].value is not None and not defs[0].weak \
                    and not isinstance(defs[0].value, (ast.Lambda, ast.ListComp, ast.DictComp, ast.SetComp, ast.GeneratorExp, ast.Yield, ast.Await)) \
                    and (not strict or same_inputs(defs[0].value, defs[0].node)):
                return go(clone(defs[0].value), d - 1)
            if len(defs) == 1 and defs[0].kind == "unpack" and isinstance(defs[0].value, ast.Tuple) and defs[0].index is not None \
                    and defs[0].index < len(defs[0].value.elts) and not any(isinstance(x, ast.Starred) for x in defs[0].value.elts) \
                    and isinstance(defs[0].node.ast, ast.Assign) and isinstance(defs[0].node.ast.targets[0], ast.Tuple) \
                    and len(defs[0].node.ast.targets[0].elts) == len(defs[0].value.elts):
                # a, b = E1, E2
                val = defs[0].value.elts[defs[0].index]
                if not strict or same_inputs(val, defs[0].node):
                    return go(clone(val), d - 1)
            if not defs:
                # module-level constant of a literal
                r = prog.repo.lookup(e.id, fi.module, fi)
                from .loader import ConstInfo
                if isinstance(r, ConstInfo) and len(r.assigns) == 1:
                    v = getattr(r.assigns[0], "value", None)
                    if isinstance(v, ast.Constant):
                        return clone(v)
            return e
        if isinstance(e, (ast.Lambda, ast.ListComp, ast.DictComp, ast.SetComp, ast.GeneratorExp)):
            return e
        for fld, val in ast.iter_fields(e):
            if isinstance(val, ast.AST):
                setattr(e, fld, go(val, d))
            elif isinstance(val, list):
                setattr(e, fld, [go(v, d) if isinstance(v, ast.AST) else v for v in val])
        return e

    return go(clone(expr), depth)
