"""Path-sensitive evaluation of small decision code.

Many rules of the renderer ask "under this valuation of a few predicates, which constant does the code produce?" -
table alignment, list-spacing arms, soft/hard breaks. The decision may be written as an if/elif chain, as a conditional
expression, with boolean temporaries, in a helper function called from a loop or a comprehension. `Decider` enumerates
the CFG paths of the code under a valuation and evaluates the few expression forms that carry the result:

  value  ::= "const" | name | A if T else B | helper(args) | (v1, v2)[i]
  test   ::= atom | name (a boolean temporary) | not T | T and U | T or U

`atom(leaf, aliases)` decides the leaves (True / False / None = unknown, both branches are followed).
An outcome of UNKNOWN means the code left the recognised forms; callers decide what that means for their rule.
"""

from __future__ import annotations

import ast
from typing import Callable

from .cfg import Node
from .dataflow import Program
from .loader import FuncInfo

UNKNOWN = "<unknown>"
Atom = Callable[[ast.AST, frozenset], "bool | None"]


def bool_eval(expr: ast.AST, atom) -> bool | None:
    if isinstance(expr, ast.BoolOp):
        vals = [bool_eval(v, atom) for v in expr.values]
        if isinstance(expr.op, ast.And):
            if any(v is False for v in vals):
                return False
            return True if all(v is True for v in vals) else None
        if any(v is True for v in vals):
            return True
        return False if all(v is False for v in vals) else None
    if isinstance(expr, ast.UnaryOp) and isinstance(expr.op, ast.Not):
        v = bool_eval(expr.operand, atom)
        return None if v is None else not v
    if isinstance(expr, ast.Constant) and isinstance(expr.value, bool):
        return expr.value
    return atom(expr)


class Decider:
    def __init__(self, prog: Program, atom: Atom, max_depth: int = 3, value_leaf=None, symbolic: set[str] | None = None) -> None:
        self.prog = prog
        self.atom = atom
        self.max_depth = max_depth
        # qualnames of one-argument repo functions kept symbolic: f(x) evaluates to ("call", qual, value of x)
        self.symbolic = symbolic or set()
        # value_leaf(fi, expr, aliases) -> hashable | None: lets a rule name non-constant results (e.g. "element.tight")
        self.value_leaf = value_leaf

    # ------------------------------------------------------------------ expressions
    def ev(self, fi: FuncInfo, e: ast.AST | None, env: dict, benv: dict, aliases: frozenset, depth: int) -> frozenset:
        if e is None:
            return frozenset({UNKNOWN})
        if self.value_leaf is not None:
            v = self.value_leaf(fi, e, aliases)
            if v is not None:
                return frozenset({v})
        if isinstance(e, ast.Constant):
            return frozenset({e.value})
        if isinstance(e, ast.Name):
            if e.id in env:
                return env[e.id]
            if e.id in benv:
                return frozenset({benv[e.id]})
            return frozenset({UNKNOWN})
        if isinstance(e, ast.Attribute):
            k = _chain(e)
            if k is not None and k in env:
                return env[k]
        if isinstance(e, ast.IfExp):
            t = bool_eval(e.test, self._atom(benv, aliases))
            if t is True:
                return self.ev(fi, e.body, env, benv, aliases, depth)
            if t is False:
                return self.ev(fi, e.orelse, env, benv, aliases, depth)
            return self.ev(fi, e.body, env, benv, aliases, depth) | self.ev(fi, e.orelse, env, benv, aliases, depth)
        if isinstance(e, ast.Call) and self.symbolic:
            t = self.prog.resolve_call(fi, e)
            if isinstance(t, list) and len(t) == 1 and t[0].qual in self.symbolic and len(e.args) == 1 and not e.keywords:
                return frozenset(("call", t[0].qual, x) for x in self.ev(fi, e.args[0], env, benv, aliases, depth))
        if isinstance(e, ast.Call) and depth < self.max_depth:
            t = self.prog.resolve_call(fi, e)
            if isinstance(t, list) and len(t) == 1 and not isinstance(t[0].node, ast.Lambda):
                callee = t[0]
                al = self._bind_aliases(fi, callee, e, aliases)
                return self.func_outcomes(callee, al, depth + 1)
        b = bool_eval(e, self._atom(benv, aliases))
        if b is not None:
            return frozenset({b})
        return frozenset({UNKNOWN})

    def _atom(self, benv: dict, aliases: frozenset):
        def atom(leaf: ast.AST) -> bool | None:
            # the valuation wins over what the code assigned: a rule may *assume* "this is a later iteration"
            v = self.atom(leaf, aliases)
            if v is None and isinstance(leaf, ast.Name) and leaf.id in benv:
                return benv[leaf.id]
            return v
        return atom

    def _bind_aliases(self, fi: FuncInfo, callee: FuncInfo, call: ast.Call, aliases: frozenset) -> frozenset:
        """Alias names are `name` or `name.attr...` texts that denote the subject(s) of the decision; rebind through the call."""
        from .dataflow import bind_call
        out = {a for a in aliases if a.partition("=")[2].split(".")[0] == "self"} if isinstance(call.func, ast.Attribute) else set()
        pairs = [(p, a) for p, a in bind_call(callee, call).items() if not p.startswith("*")]
        for p, a in pairs:
            txt = _chain(a)
            if txt is None:
                continue
            for al in aliases:
                # aliases are stored as "role=chain": the role survives, the chain is rewritten
                role, _, chain = al.partition("=")
                if chain == txt:
                    out.add(f"{role}={p}")
                elif chain.startswith(txt + "."):
                    out.add(f"{role}={p}{chain[len(txt):]}")
        return frozenset(out)

    # ------------------------------------------------------------------ statements
    def walk(self, fi: FuncInfo, start: Node, stop, aliases: frozenset, depth: int = 0, env0: dict | None = None):
        """Enumerate paths from `start` until stop(node) (not tested on start) or a return.
        Yields (end node or None, env, benv, outs) where outs are the values appended / returned on the path."""
        results = []
        stack = [(start, dict(env0 or {}), {}, (), (start.id,), aliases)]
        budget = 4000
        while stack and budget > 0:
            budget -= 1
            n, env, benv, outs, seen, aliases = stack.pop()
            env = {**env, "__aliases__": aliases}
            if len(seen) > 1 and stop is not None and stop(n):
                results.append((n, env, benv, outs))
                continue
            if n.kind == "stmt":
                a = n.ast
                if isinstance(a, (ast.Assign, ast.AnnAssign)) and getattr(a, "value", None) is not None:
                    tg = a.targets[0] if isinstance(a, ast.Assign) else a.target
                    tgk = _chain(tg)
                    if tgk is not None and not isinstance(tg, ast.Name):
                        # store into an attribute (self.x = ...): remembered in the environment and reported as an event
                        v = self.ev(fi, a.value, env, benv, aliases, depth)
                        env = {**env, tgk: v}
                        outs = outs + (("store", tgk, v),)
                    if isinstance(tg, ast.Name):
                        v = self.ev(fi, a.value, env, benv, aliases, depth)
                        env = {**env, tg.id: v}
                        b = bool_eval(a.value, self._atom(benv, aliases))
                        benv = {k: x for k, x in benv.items() if k != tg.id}
                        if b is not None:
                            benv[tg.id] = b
                        txt = _chain(a.value)
                        if txt is not None:
                            aliases = aliases | frozenset(f"{al.partition('=')[0]}={tg.id}{al.partition('=')[2][len(txt):]}"
                                                          for al in aliases if al.partition("=")[2] == txt or al.partition("=")[2].startswith(txt + "."))
                    elif isinstance(tg, ast.Tuple) and all(isinstance(x, ast.Name) for x in tg.elts):
                        if isinstance(a.value, ast.Tuple) and len(a.value.elts) == len(tg.elts):
                            vals = [self.ev(fi, x, env, benv, aliases, depth) for x in a.value.elts]
                        else:
                            whole = self.ev(fi, a.value, env, benv, aliases, depth)
                            vals = []
                            for i in range(len(tg.elts)):
                                vals.append(frozenset(w[i] if isinstance(w, tuple) and len(w) == len(tg.elts) else UNKNOWN for w in whole))
                        env = {**env, **{x.id: v for x, v in zip(tg.elts, vals)}}
                elif isinstance(a, ast.AugAssign) and isinstance(a.target, ast.Name):
                    outs = outs + (("aug", a.target.id, n),)
                elif isinstance(a, ast.Expr) and isinstance(a.value, ast.Call) and isinstance(a.value.func, ast.Attribute) \
                        and a.value.func.attr in ("append", "add") and len(a.value.args) == 1:
                    outs = outs + (self.ev(fi, a.value.args[0], env, benv, aliases, depth),)
                elif isinstance(a, ast.Return):
                    v = a.value
                    if isinstance(v, ast.Tuple):
                        parts = [self.ev(fi, x, env, benv, aliases, depth) for x in v.elts]
                        import itertools
                        val = frozenset(tuple(c) for c in itertools.islice(itertools.product(*parts), 64))
                    else:
                        val = self.ev(fi, v, env, benv, aliases, depth)
                    results.append((n, env, benv, outs + (val,)))
                    continue
            succ = list(n.succ)
            if n.kind == "test":
                t = bool_eval(n.ast, self._atom(benv, aliases))
                if t is not None:
                    succ = [(s, lab) for s, lab in succ if lab == ("T" if t else "F")]
            if not succ:
                results.append((None, env, benv, outs))
            for s, _lab in succ:
                if s.id in seen and s.kind in ("for", "test", "while"):
                    results.append((s, env, benv, outs))
                    continue
                stack.append((s, env, benv, outs, seen + (s.id,), aliases))
        if budget <= 0:
            results.append((None, {}, {}, (frozenset({UNKNOWN}),)))
        return results

    def func_outcomes(self, fi: FuncInfo, aliases: frozenset, depth: int = 0) -> frozenset:
        """Values the function may return under the valuation."""
        flow = self.prog.flow(fi)
        out: set = set()
        for end, _env, _benv, outs in self.walk(fi, flow.cfg.entry, None, aliases, depth):
            if end is not None and end.kind == "stmt" and isinstance(end.ast, ast.Return) and outs:
                out |= outs[-1]
            elif end is None or end.kind == "exit":
                out.add(None)
            else:
                out.add(UNKNOWN)
        return frozenset(out)


def _chain(e: ast.AST) -> str | None:
    parts = []
    while isinstance(e, ast.Attribute):
        parts.append(e.attr)
        e = e.value
    if isinstance(e, ast.Name):
        parts.append(e.id)
        return ".".join(reversed(parts))
    return None


def alias_roles(aliases: frozenset) -> dict[str, set[str]]:
    out: dict[str, set[str]] = {}
    for al in aliases:
        role, _, chain = al.partition("=")
        out.setdefault(chain, set()).add(role)
    return out


def role_of(e: ast.AST, aliases: frozenset) -> set[str]:
    txt = _chain(e)
    if txt is None:
        return set()
    return alias_roles(aliases).get(txt, set())


# ------------------------------------------------------------------------------------------------------------------
# Position-in-loop predicates: "is this the first / the last iteration?" however it is spelled.
class LoopFacts:
    """What a `for` loop offers for telling the first (and last) iteration apart:
      flags  - local names that hold a constant on the first iteration and the opposite constant on all later ones
               (initialised before the loop, overwritten on every path through the body)
      index  - names bound to the 0-based index of enumerate(X)
      seq    - text of the iterated sequence X (for `index == len(X) - 1`)"""

    def __init__(self, prog: Program, fi: FuncInfo, head: Node) -> None:
        flow = prog.flow(fi)
        self.head = head
        self.flags: dict[str, bool] = {}
        self.index: set[str] = set()
        self.seq: str | None = None
        body = flow.loop_body_nodes(head)
        st = head.ast
        it = st.iter
        if isinstance(it, ast.Call) and isinstance(it.func, ast.Name) and it.func.id == "enumerate" and it.args \
                and isinstance(st.target, ast.Tuple) and st.target.elts and isinstance(st.target.elts[0], ast.Name):
            start = it.args[1] if len(it.args) > 1 else next((k.value for k in it.keywords if k.arg == "start"), None)
            if start is None or (isinstance(start, ast.Constant) and start.value == 0):
                name = st.target.elts[0].id
                stored = [n for n in body if n is not head and n.kind == "stmt" and any(
                    isinstance(x, ast.Name) and x.id == name and isinstance(x.ctx, ast.Store) for x in ast.walk(n.ast))]
                if not stored:
                    self.index.add(name)
                    self.seq = ast.unparse(it.args[0])
        # flags
        cands: dict[str, list[Node]] = {}
        for n in body:
            if n.kind == "stmt" and isinstance(n.ast, ast.Assign) and len(n.ast.targets) == 1 and isinstance(n.ast.targets[0], ast.Name) \
                    and isinstance(n.ast.value, ast.Constant) and isinstance(n.ast.value.value, bool):
                cands.setdefault(n.ast.targets[0].id, []).append(n)
        entries = [s for s, lab in head.succ if lab == "iter"]
        for name, nodes in cands.items():
            inner_vals = {n.ast.value.value for n in nodes}
            if len(inner_vals) != 1:
                continue
            # every other store to the name inside the loop disqualifies it
            other = [n for n in body if n not in nodes and n.kind in ("stmt", "for", "with") and n is not head and any(
                isinstance(x, ast.Name) and x.id == name and isinstance(x.ctx, ast.Store) for x in ast.walk(n.ast) if not isinstance(x, (ast.FunctionDef, ast.Lambda)))]
            if other:
                continue
            outer = [d for d in flow.reaching(head, name) if d.node not in body]
            if not outer or not all(d.kind == "assign" and isinstance(d.value, ast.Constant) and isinstance(d.value.value, bool) for d in outer):
                continue
            outer_vals = {d.value.value for d in outer}
            inner = next(iter(inner_vals))
            if outer_vals != {not inner}:
                continue
            # overwritten on every complete trip through the body (a `continue` that skips it would keep "first" alive)
            if all(flow.cfg.path_avoiding(e, head, set(nodes)) is None for e in entries):
                self.flags[name] = not inner  # value on the first iteration

    def first_atom(self, first: bool):
        def atom(leaf: ast.AST, _aliases: frozenset = frozenset()) -> bool | None:
            if isinstance(leaf, ast.Name):
                if leaf.id in self.flags:
                    return self.flags[leaf.id] if first else not self.flags[leaf.id]
                if leaf.id in self.index:
                    return not first
            if isinstance(leaf, ast.Compare) and len(leaf.ops) == 1:
                l, r, op = leaf.left, leaf.comparators[0], leaf.ops[0]
                if isinstance(r, ast.Name) and r.id in self.index and isinstance(l, ast.Constant):
                    l, r = r, l
                    op = {ast.Lt: ast.Gt, ast.Gt: ast.Lt, ast.LtE: ast.GtE, ast.GtE: ast.LtE}.get(type(op), type(op))()
                if isinstance(l, ast.Name) and l.id in self.index and isinstance(r, ast.Constant) and isinstance(r.value, int):
                    k = r.value
                    table = {(ast.Eq, 0): True, (ast.NotEq, 0): False, (ast.Gt, 0): False, (ast.GtE, 1): False, (ast.Lt, 1): True, (ast.LtE, 0): True}
                    v = table.get((type(op), k))
                    if v is not None:
                        return v if first else not v
            return None
        return atom

    def last_atom(self, last: bool):
        """index == len(X) - 1 and its equivalent spellings."""
        def lenx(e: ast.AST) -> bool:
            return isinstance(e, ast.Call) and isinstance(e.func, ast.Name) and e.func.id == "len" and len(e.args) == 1 \
                and self.seq is not None and ast.unparse(e.args[0]) == self.seq

        def idx_plus(e: ast.AST) -> int | None:
            if isinstance(e, ast.Name) and e.id in self.index:
                return 0
            if isinstance(e, ast.BinOp) and isinstance(e.op, (ast.Add, ast.Sub)) and isinstance(e.left, ast.Name) and e.left.id in self.index \
                    and isinstance(e.right, ast.Constant) and isinstance(e.right.value, int):
                return e.right.value if isinstance(e.op, ast.Add) else -e.right.value
            return None

        def len_plus(e: ast.AST) -> int | None:
            if lenx(e):
                return 0
            if isinstance(e, ast.BinOp) and isinstance(e.op, (ast.Add, ast.Sub)) and lenx(e.left) and isinstance(e.right, ast.Constant) \
                    and isinstance(e.right.value, int):
                return e.right.value if isinstance(e.op, ast.Add) else -e.right.value
            return None

        def atom(leaf: ast.AST, _aliases: frozenset = frozenset()) -> bool | None:
            if isinstance(leaf, ast.Compare) and len(leaf.ops) == 1:
                l, r, op = leaf.left, leaf.comparators[0], type(leaf.ops[0])
                a, b = idx_plus(l), len_plus(r)
                if a is None or b is None:
                    a2, b2 = idx_plus(r), len_plus(l)
                    if a2 is None or b2 is None:
                        return None
                    a, b = a2, b2
                    op = {ast.Lt: ast.Gt, ast.Gt: ast.Lt, ast.LtE: ast.GtE, ast.GtE: ast.LtE}.get(op, op)
                # index + a  OP  len + b   <=>   index OP len + (b - a); index ranges over 0 .. len-1
                d = b - a
                v = None
                if op is ast.Eq and d == -1:
                    v = True
                elif op is ast.NotEq and d == -1:
                    v = False
                elif op is ast.Lt and d == -1:
                    v = False
                elif op is ast.GtE and d == -1:
                    v = True
                elif op is ast.LtE and d == -2:
                    v = False
                elif op is ast.Gt and d == -2:
                    v = True
                if v is not None:
                    return v if last else not v
            return None
        return atom
