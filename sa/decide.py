"""Path-sensitive evaluation of small decision code.

Many rules of the renderer ask "under this valuation of a few predicates, which constant does the code produce?" -
table alignment, list-spacing arms, soft/hard breaks. The decision may be written as an if/elif chain, as a conditional
expression, with boolean temporaries, in a helper function called from a loop or a comprehension. `Decider` enumerates
the CFG paths of the code under a valuation and evaluates the few expression forms that carry the result:

  value  ::= "const" | name | A if T else B | helper(args) | (v1, v2)[i]
  test   ::= atom | name (a boolean temporary) | not T | T and U | T or U

`atom(leaf, aliases)` decides the leaves (True / False / None = unknown, both branches are followed).
An outcome of UNKNOWN means the code left the recognised forms; callers decide what that means for their rule.
"""

from __future__ import annotations

import ast
from typing import Callable

from .cfg import Node
from .dataflow import Program
from .loader import FuncInfo

UNKNOWN = "<unknown>"
Atom = Callable[[ast.AST, frozenset], "bool | None"]


def bool_eval(expr: ast.AST, atom) -> bool | None:
    if isinstance(expr, ast.BoolOp):
        vals = [bool_eval(v, atom) for v in expr.values]
        if isinstance(expr.op, ast.And):
            if any(v is False for v in vals):
                return False
            return True if all(v is True for v in vals) else None
        if any(v is True for v in vals):
            return True
        return False if all(v is False for v in vals) else None
    if isinstance(expr, ast.UnaryOp) and isinstance(expr.op, ast.Not):
        v = bool_eval(expr.operand, atom)
        return None if v is None else not v
    if isinstance(expr, ast.Constant) and isinstance(expr.value, bool):
        return expr.value
    return atom(expr)


class Decider:
    def __init__(self, prog: Program, atom: Atom, max_depth: int = 3, value_leaf=None) -> None:
        self.prog = prog
        self.atom = atom
        self.max_depth = max_depth
        # value_leaf(expr, aliases) -> hashable | None: lets a rule name non-constant results (e.g. "element.tight")
        self.value_leaf = value_leaf

    # ------------------------------------------------------------------ expressions
    def ev(self, fi: FuncInfo, e: ast.AST | None, env: dict, benv: dict, aliases: frozenset, depth: int) -> frozenset:
        if e is None:
            return frozenset({UNKNOWN})
        if self.value_leaf is not None:
            v = self.value_leaf(e, aliases)
            if v is not None:
                return frozenset({v})
        if isinstance(e, ast.Constant):
            return frozenset({e.value})
        if isinstance(e, ast.Name):
            if e.id in env:
                return env[e.id]
            if e.id in benv:
                return frozenset({benv[e.id]})
            return frozenset({UNKNOWN})
        if isinstance(e, ast.IfExp):
            t = bool_eval(e.test, self._atom(benv, aliases))
            if t is True:
                return self.ev(fi, e.body, env, benv, aliases, depth)
            if t is False:
                return self.ev(fi, e.orelse, env, benv, aliases, depth)
            return self.ev(fi, e.body, env, benv, aliases, depth) | self.ev(fi, e.orelse, env, benv, aliases, depth)
        if isinstance(e, ast.Call) and depth < self.max_depth:
            t = self.prog.resolve_call(fi, e)
            if isinstance(t, list) and len(t) == 1 and not isinstance(t[0].node, ast.Lambda):
                callee = t[0]
                al = self._bind_aliases(fi, callee, e, aliases)
                return self.func_outcomes(callee, al, depth + 1)
        b = bool_eval(e, self._atom(benv, aliases))
        if b is not None:
            return frozenset({b})
        return frozenset({UNKNOWN})

    def _atom(self, benv: dict, aliases: frozenset):
        def atom(leaf: ast.AST) -> bool | None:
            if isinstance(leaf, ast.Name) and leaf.id in benv:
                return benv[leaf.id]
            return self.atom(leaf, aliases)
        return atom

    def _bind_aliases(self, fi: FuncInfo, callee: FuncInfo, call: ast.Call, aliases: frozenset) -> frozenset:
        """Alias names are `name` or `name.attr...` texts that denote the subject(s) of the decision; rebind through the call."""
        from .dataflow import bind_call
        out = {a for a in aliases if a.partition("=")[2].split(".")[0] == "self"} if isinstance(call.func, ast.Attribute) else set()
        pairs = [(p, a) for p, a in bind_call(callee, call).items() if not p.startswith("*")]
        for p, a in pairs:
            txt = _chain(a)
            if txt is None:
                continue
            for al in aliases:
                # aliases are stored as "role=chain": the role survives, the chain is rewritten
                role, _, chain = al.partition("=")
                if chain == txt:
                    out.add(f"{role}={p}")
                elif chain.startswith(txt + "."):
                    out.add(f"{role}={p}{chain[len(txt):]}")
        return frozenset(out)

    # ------------------------------------------------------------------ statements
    def walk(self, fi: FuncInfo, start: Node, stop, aliases: frozenset, depth: int = 0, env0: dict | None = None):
        """Enumerate paths from `start` until stop(node) (not tested on start) or a return.
        Yields (end node or None, env, benv, outs) where outs are the values appended / returned on the path."""
        results = []
        stack = [(start, dict(env0 or {}), {}, (), (start.id,))]
        budget = 4000
        while stack and budget > 0:
            budget -= 1
            n, env, benv, outs, seen = stack.pop()
            if len(seen) > 1 and stop is not None and stop(n):
                results.append((n, env, benv, outs))
                continue
            if n.kind == "stmt":
                a = n.ast
                if isinstance(a, (ast.Assign, ast.AnnAssign)) and getattr(a, "value", None) is not None:
                    tg = a.targets[0] if isinstance(a, ast.Assign) else a.target
                    if isinstance(tg, ast.Name):
                        v = self.ev(fi, a.value, env, benv, aliases, depth)
                        env = {**env, tg.id: v}
                        b = bool_eval(a.value, self._atom(benv, aliases))
                        benv = {k: x for k, x in benv.items() if k != tg.id}
                        if b is not None:
                            benv[tg.id] = b
                        txt = _chain(a.value)
                        if txt is not None:
                            aliases = aliases | frozenset(f"{al.partition('=')[0]}={tg.id}{al.partition('=')[2][len(txt):]}"
                                                          for al in aliases if al.partition("=")[2] == txt or al.partition("=")[2].startswith(txt + "."))
                    elif isinstance(tg, ast.Tuple) and all(isinstance(x, ast.Name) for x in tg.elts):
                        if isinstance(a.value, ast.Tuple) and len(a.value.elts) == len(tg.elts):
                            vals = [self.ev(fi, x, env, benv, aliases, depth) for x in a.value.elts]
                        else:
                            whole = self.ev(fi, a.value, env, benv, aliases, depth)
                            vals = []
                            for i in range(len(tg.elts)):
                                vals.append(frozenset(w[i] if isinstance(w, tuple) and len(w) == len(tg.elts) else UNKNOWN for w in whole))
                        env = {**env, **{x.id: v for x, v in zip(tg.elts, vals)}}
                elif isinstance(a, ast.Expr) and isinstance(a.value, ast.Call) and isinstance(a.value.func, ast.Attribute) \
                        and a.value.func.attr in ("append", "add") and len(a.value.args) == 1:
                    outs = outs + (self.ev(fi, a.value.args[0], env, benv, aliases, depth),)
                elif isinstance(a, ast.Return):
                    v = a.value
                    if isinstance(v, ast.Tuple):
                        parts = [self.ev(fi, x, env, benv, aliases, depth) for x in v.elts]
                        import itertools
                        val = frozenset(tuple(c) for c in itertools.islice(itertools.product(*parts), 64))
                    else:
                        val = self.ev(fi, v, env, benv, aliases, depth)
                    results.append((n, env, benv, outs + (val,)))
                    continue
            succ = list(n.succ)
            if n.kind == "test":
                t = bool_eval(n.ast, self._atom(benv, aliases))
                if t is not None:
                    succ = [(s, lab) for s, lab in succ if lab == ("T" if t else "F")]
            if not succ:
                results.append((None, env, benv, outs))
            for s, _lab in succ:
                if s.id in seen and s.kind in ("for", "test", "while"):
                    results.append((s, env, benv, outs))
                    continue
                stack.append((s, env, benv, outs, seen + (s.id,)))
        if budget <= 0:
            results.append((None, {}, {}, (frozenset({UNKNOWN}),)))
        return results

    def func_outcomes(self, fi: FuncInfo, aliases: frozenset, depth: int = 0) -> frozenset:
        """Values the function may return under the valuation."""
        flow = self.prog.flow(fi)
        out: set = set()
        for end, _env, _benv, outs in self.walk(fi, flow.cfg.entry, None, aliases, depth):
            if end is not None and end.kind == "stmt" and isinstance(end.ast, ast.Return) and outs:
                out |= outs[-1]
            elif end is None or end.kind == "exit":
                out.add(None)
            else:
                out.add(UNKNOWN)
        return frozenset(out)


def _chain(e: ast.AST) -> str | None:
    parts = []
    while isinstance(e, ast.Attribute):
        parts.append(e.attr)
        e = e.value
    if isinstance(e, ast.Name):
        parts.append(e.id)
        return ".".join(reversed(parts))
    return None


def alias_roles(aliases: frozenset) -> dict[str, set[str]]:
    out: dict[str, set[str]] = {}
    for al in aliases:
        role, _, chain = al.partition("=")
        out.setdefault(chain, set()).add(role)
    return out


def role_of(e: ast.AST, aliases: frozenset) -> set[str]:
    txt = _chain(e)
    if txt is None:
        return set()
    return alias_roles(aliases).get(txt, set())
