"""Static analysis machinery for jlevy/flowmark (properties C01-C18).

Nothing in this package imports or executes flowmark. Every verdict is computed
from the source text of the repository working tree (and, read-only, of the
installed marko / strif distributions).
"""
