"""Regular-language reasoning about regex *constants* of the program (no matching of runtime text).

A pattern string is parsed with the standard library's sre parser into a tree, turned into a Glushkov
(position) automaton over an interval alphabet, and queried: membership of a constant word, language
inclusion, derived languages ("first word of a line that the pattern can start"), and the three shapes that
make a backtracking matcher super-linear (exponential ambiguity, non-star-normal-form stars, nullable bodies).

Approximations (all towards a *larger* language, so "no hazard / no ambiguity" answers are sound):
look-arounds and anchors are dropped, back-references are replaced by the referenced group, lazy and
greedy repeats are the same language, counted repeats with large bounds are capped (MAX_COPY copies + star).
Code points above 127 form one class; \\d is [0-9], \\s is ASCII whitespace, \\w is [A-Za-z0-9_] plus non-ASCII.
"""

from __future__ import annotations

import re
from dataclasses import dataclass, field

try:  # Python 3.11+
    import re._parser as sre_parse  # type: ignore[import-not-found]
    import re._constants as sre_c  # type: ignore[import-not-found]
except ImportError:  # pragma: no cover
    import sre_parse  # type: ignore[no-redef]
    import sre_constants as sre_c  # type: ignore[no-redef]

MAXCP = 0x10FFFF
NONASCII = (128, MAXCP)
MAX_COPY = 12

Ranges = tuple[tuple[int, int], ...]


def _norm(rs) -> Ranges:
    rs = sorted((a, b) for a, b in rs if a <= b)
    out: list[tuple[int, int]] = []
    for a, b in rs:
        if out and a <= out[-1][1] + 1:
            out[-1] = (out[-1][0], max(out[-1][1], b))
        else:
            out.append((a, b))
    return tuple(out)


def _neg(rs: Ranges) -> Ranges:
    out = []
    prev = 0
    for a, b in rs:
        if a > prev:
            out.append((prev, a - 1))
        prev = b + 1
    if prev <= MAXCP:
        out.append((prev, MAXCP))
    return _norm(out)


DIGIT: Ranges = ((48, 57),)
SPACE: Ranges = _norm([(9, 13), (32, 32), (28, 31)])
WORD: Ranges = _norm([(48, 57), (65, 90), (95, 95), (97, 122), NONASCII])
ANY_NO_NL: Ranges = _neg(((10, 10),))
ANY: Ranges = ((0, MAXCP),)

CATEGORY = {
    "CATEGORY_DIGIT": DIGIT, "CATEGORY_NOT_DIGIT": _neg(DIGIT),
    "CATEGORY_SPACE": SPACE, "CATEGORY_NOT_SPACE": _neg(SPACE),
    "CATEGORY_WORD": WORD, "CATEGORY_NOT_WORD": _neg(WORD),
    "CATEGORY_LINEBREAK": ((10, 10),), "CATEGORY_NOT_LINEBREAK": ANY_NO_NL,
}


def _case_fold(rs: Ranges) -> Ranges:
    out = list(rs)
    for a, b in rs:
        for lo, hi, d in ((65, 90, 32), (97, 122, -32)):
            x, y = max(a, lo), min(b, hi)
            if x <= y:
                out.append((x + d, y + d))
    return _norm(out)


# ------------------------------------------------------------------------------------------- regex AST
@dataclass
class RNode:
    kind: str  # "set" | "cat" | "alt" | "star" | "opt" | "eps" | "empty"
    ranges: Ranges = ()
    kids: list["RNode"] = field(default_factory=list)
    pos: int = -1
    note: str = ""


def rewrite_regex_module_classes(pattern: str) -> str:
    """\\p{L}-style classes of the third-party `regex` module -> ranges sre can parse (bare ranges when the class is
    already inside a [...] set, a bracketed set otherwise)."""
    repl = {
        "L": "A-Za-z\u00c0-\uffff", "Ll": "a-z\u00df-\u00ff", "Lu": "A-Z\u00c0-\u00de",
        "N": "0-9", "P": r"!-/:-@\[-`{-~",
    }
    out: list[str] = []
    i, n, in_set = 0, len(pattern), False
    while i < n:
        ch = pattern[i]
        if ch == "\\" and i + 1 < n:
            if pattern[i + 1] == "p" and i + 2 < n and pattern[i + 2] == "{":
                j = pattern.find("}", i + 3)
                name = pattern[i + 3:j] if j > 0 else ""
                if name in repl:
                    out.append(repl[name] if in_set else f"[{repl[name]}]")
                    i = j + 1
                    continue
            out.append(pattern[i:i + 2])
            i += 2
            continue
        if ch == "[" and not in_set:
            in_set = True
            out.append(ch)
            i += 1
            if i < n and pattern[i] == "^":
                out.append("^")
                i += 1
            if i < n and pattern[i] == "]":
                out.append("]")
                i += 1
            continue
        if ch == "]" and in_set:
            in_set = False
        out.append(ch)
        i += 1
    return "".join(out)


class Regex:
    """A parsed regex constant."""

    def __init__(self, pattern: str, flags: int = 0, name: str = "") -> None:
        self.pattern = pattern
        self.flags = flags
        self.name = name
        self.notes: list[str] = []
        self.groups: dict[int, RNode] = {}
        try:
            import warnings

            with warnings.catch_warnings():
                warnings.simplefilter("ignore")
                tree = sre_parse.parse(rewrite_regex_module_classes(pattern), flags)
        except Exception as e:  # noqa: BLE001
            raise ValueError(f"cannot parse regex {pattern!r}: {e}") from e
        self.flags = flags | tree.state.flags
        self.end_anchored = False
        self.root = self._conv(tree, top=True)
        self.n_pos = 0
        self._number(self.root)

    # ------------------------------------------------------------ conversion
    def _set_of(self, op, av) -> Ranges:
        name = str(op)
        if name == "LITERAL":
            rs: Ranges = ((av, av),)
        elif name == "NOT_LITERAL":
            rs = _neg(((av, av),))
        elif name == "ANY":
            rs = ANY if self.flags & re.DOTALL else ANY_NO_NL
        elif name == "IN":
            neg = False
            acc: list[tuple[int, int]] = []
            for o, a in av:
                on = str(o)
                if on == "NEGATE":
                    neg = True
                elif on == "LITERAL":
                    acc.append((a, a))
                elif on == "RANGE":
                    acc.append((a[0], a[1]))
                elif on == "CATEGORY":
                    acc += list(CATEGORY[str(a)])
                else:
                    raise ValueError(f"unsupported set item {on}")
            rs = _norm(acc)
            if self.flags & re.IGNORECASE:
                rs = _case_fold(rs)
            if neg:
                rs = _neg(rs)
            return rs
        elif name == "CATEGORY":
            rs = CATEGORY[str(av)]
        else:
            raise ValueError(name)
        if self.flags & re.IGNORECASE:
            rs = _case_fold(rs)
        return rs

    def _conv(self, seq, top: bool = False) -> RNode:
        items: list[RNode] = []
        seq_list = list(seq)
        skip_next = False
        for idx, (op, av) in enumerate(seq_list):
            name = str(op)
            if skip_next:
                skip_next = False
                continue
            if top and name == "AT" and str(av) in ("AT_END", "AT_END_STRING", "AT_END_LINE"):
                self.end_anchored = True
            if name == "ASSERT" and av[0] == 1 and idx + 1 < len(seq_list):
                # (?=S) directly before a repeat over a single set T:  (?=S)T{0,}  ->  ((S&T) T*)?
                look = list(av[1])
                nop, nav = seq_list[idx + 1]
                if len(look) == 1 and str(look[0][0]) in ("IN", "LITERAL", "CATEGORY", "ANY", "NOT_LITERAL") and \
                        str(nop) in ("MAX_REPEAT", "MIN_REPEAT") and nav[0] == 0 and len(list(nav[2])) == 1 and \
                        str(list(nav[2])[0][0]) in ("IN", "LITERAL", "CATEGORY", "ANY", "NOT_LITERAL"):
                    s_set = self._set_of(*look[0])
                    t_item = list(nav[2])[0]
                    t_set = self._set_of(*t_item)
                    inter = _intersect(s_set, t_set)
                    body = [RNode("set", inter)] if inter else []
                    if inter:
                        if nav[1] == sre_c.MAXREPEAT:
                            body.append(RNode("star", kids=[RNode("set", t_set)], note="{0,}"))
                        items.append(RNode("opt", kids=[RNode("cat", kids=body)]))
                    self.notes.append("look-ahead (?=S) folded into the following repeat")
                    skip_next = True
                    continue
            if name in ("LITERAL", "NOT_LITERAL", "ANY", "IN", "CATEGORY"):
                items.append(RNode("set", self._set_of(op, av)))
            elif name == "BRANCH":
                items.append(RNode("alt", kids=[self._conv(b) for b in av[1]]))
            elif name == "SUBPATTERN":
                gid = av[0]
                sub = self._conv(av[-1])
                if gid is not None:
                    self.groups[gid] = sub
                items.append(sub)
            elif name in ("MAX_REPEAT", "MIN_REPEAT", "POSSESSIVE_REPEAT"):
                lo, hi, body = av
                hi_inf = hi == sre_c.MAXREPEAT
                b = lambda: self._conv(body)  # noqa: E731 - fresh copy per use (positions are per occurrence)
                parts: list[RNode] = []
                lo_c = min(lo, MAX_COPY)
                if lo > MAX_COPY:
                    self.notes.append(f"repeat lower bound {lo} capped at {MAX_COPY}")
                for _ in range(lo_c):
                    parts.append(b())
                if hi_inf or lo > MAX_COPY:
                    parts.append(RNode("star", kids=[b()], note=f"{{{lo},{'' if hi_inf else hi}}}"))
                else:
                    extra = hi - lo
                    if extra > MAX_COPY:
                        self.notes.append(f"repeat upper bound {hi} capped")
                        parts.append(RNode("star", kids=[b()], note=f"{{{lo},{hi}}}"))
                    else:
                        # nested optionals: (x(x(x)?)?)?
                        opt: RNode | None = None
                        for _ in range(extra):
                            inner = [b()] + ([opt] if opt is not None else [])
                            opt = RNode("opt", kids=[RNode("cat", kids=inner)])
                        if opt is not None:
                            parts.append(opt)
                items.append(RNode("cat", kids=parts) if len(parts) != 1 else parts[0])
            elif name == "AT":
                self.notes.append(f"anchor {av} dropped")
            elif name in ("ASSERT", "ASSERT_NOT"):
                self.notes.append(f"look-around dropped ({'negative' if name == 'ASSERT_NOT' else 'positive'})")
            elif name == "GROUPREF":
                g = self.groups.get(av)
                if g is None:
                    raise ValueError("back-reference to unknown group")
                import copy

                items.append(copy.deepcopy(g))
                self.notes.append(f"back-reference \\{av} replaced by its group")
            elif name == "GROUPREF_EXISTS":
                raise ValueError("conditional group not supported")
            elif name == "ATOMIC_GROUP":
                items.append(self._conv(av))
            else:
                raise ValueError(f"unsupported regex construct {name}")
        if not items:
            return RNode("eps")
        return items[0] if len(items) == 1 else RNode("cat", kids=items)

    def _number(self, n: RNode) -> None:
        if n.kind == "set":
            self.n_pos += 1
            n.pos = self.n_pos
        for k in n.kids:
            self._number(k)

    # ------------------------------------------------------------- Glushkov
    def glushkov(self) -> "NFA":
        first: dict[int, set[int]] = {}
        last: dict[int, set[int]] = {}
        nullable: dict[int, bool] = {}
        follow: dict[int, set[int]] = {i: set() for i in range(1, self.n_pos + 1)}
        label: dict[int, Ranges] = {}

        def go(n: RNode) -> None:
            for k in n.kids:
                go(k)
            i = id(n)
            if n.kind == "set":
                label[n.pos] = n.ranges
                first[i], last[i], nullable[i] = {n.pos}, {n.pos}, False
            elif n.kind == "eps":
                first[i], last[i], nullable[i] = set(), set(), True
            elif n.kind == "alt":
                first[i] = set().union(*(first[id(k)] for k in n.kids)) if n.kids else set()
                last[i] = set().union(*(last[id(k)] for k in n.kids)) if n.kids else set()
                nullable[i] = any(nullable[id(k)] for k in n.kids)
            elif n.kind == "cat":
                f: set[int] = set()
                for k in n.kids:
                    f |= first[id(k)]
                    if not nullable[id(k)]:
                        break
                la: set[int] = set()
                for k in reversed(n.kids):
                    la |= last[id(k)]
                    if not nullable[id(k)]:
                        break
                first[i], last[i] = f, la
                nullable[i] = all(nullable[id(k)] for k in n.kids)
                # follow: last of prefix -> first of next non-skipped
                for a in range(len(n.kids)):
                    for b in range(a + 1, len(n.kids)):
                        for p in last[id(n.kids[a])]:
                            follow[p] |= first[id(n.kids[b])]
                        if not nullable[id(n.kids[b])]:
                            break
            elif n.kind in ("star", "opt"):
                k = n.kids[0]
                first[i], last[i], nullable[i] = set(first[id(k)]), set(last[id(k)]), True
                if n.kind == "star":
                    for p in last[id(k)]:
                        follow[p] |= first[id(k)]

        go(self.root)
        r = id(self.root)
        nfa = NFA(self.n_pos + 1)
        for p in first[r]:
            nfa.add(0, label[p], p)
        for p, qs in follow.items():
            for q in qs:
                nfa.add(p, label[q], q)
        nfa.finals = set(last[r]) | ({0} if nullable[r] else set())
        nfa.label = label
        return nfa

    # --------------------------------------------------- super-linear shapes
    def star_problems(self) -> list[str]:
        """(b) stars not in star normal form and (c) unbounded repeats over nullable bodies."""
        out: list[str] = []
        first: dict[int, set[int]] = {}
        last: dict[int, set[int]] = {}
        nullable: dict[int, bool] = {}
        follow: dict[int, set[int]] = {i: set() for i in range(1, self.n_pos + 1)}

        def go(n: RNode) -> None:
            for k in n.kids:
                go(k)
            i = id(n)
            if n.kind == "set":
                first[i], last[i], nullable[i] = {n.pos}, {n.pos}, False
            elif n.kind == "eps":
                first[i], last[i], nullable[i] = set(), set(), True
            elif n.kind == "alt":
                first[i] = set().union(*(first[id(k)] for k in n.kids)) if n.kids else set()
                last[i] = set().union(*(last[id(k)] for k in n.kids)) if n.kids else set()
                nullable[i] = any(nullable[id(k)] for k in n.kids)
            elif n.kind == "cat":
                f: set[int] = set()
                for k in n.kids:
                    f |= first[id(k)]
                    if not nullable[id(k)]:
                        break
                la: set[int] = set()
                for k in reversed(n.kids):
                    la |= last[id(k)]
                    if not nullable[id(k)]:
                        break
                first[i], last[i] = f, la
                nullable[i] = all(nullable[id(k)] for k in n.kids)
                for a in range(len(n.kids)):
                    for b in range(a + 1, len(n.kids)):
                        for p in last[id(n.kids[a])]:
                            follow[p] |= first[id(n.kids[b])]
                        if not nullable[id(n.kids[b])]:
                            break
            elif n.kind in ("star", "opt"):
                k = n.kids[0]
                if n.kind == "star":
                    # star normal form: inside the body, follow(last(body)) must not already meet first(body)
                    inner = set()
                    for p in last[id(k)]:
                        inner |= follow[p]
                    if inner & first[id(k)]:
                        out.append(f"star{n.note} over a body that already loops back on itself (nested quantifier, (x*)* family)")
                    if nullable[id(k)]:
                        out.append(f"unbounded repeat{n.note} over a body that can match the empty string")
                first[i], last[i], nullable[i] = set(first[id(k)]), set(last[id(k)]), True
                if n.kind == "star":
                    for p in last[id(k)]:
                        follow[p] |= first[id(k)]

        go(self.root)
        return out


# ------------------------------------------------------------------------------------------------- NFA
class NFA:
    def __init__(self, n: int) -> None:
        self.n = n
        self.trans: dict[int, list[tuple[Ranges, int]]] = {i: [] for i in range(n)}
        self.finals: set[int] = set()
        self.label: dict[int, Ranges] = {}

    def add(self, a: int, rs: Ranges, b: int) -> None:
        self.trans[a].append((rs, b))

    def step(self, states: set[int], cp: int) -> set[int]:
        out = set()
        for s in states:
            for rs, t in self.trans[s]:
                if any(a <= cp <= b for a, b in rs):
                    out.add(t)
        return out

    def accepts(self, word: str) -> bool:
        cur = {0}
        for ch in word:
            cur = self.step(cur, ord(ch))
            if not cur:
                return False
        return bool(cur & self.finals)

    def states_after(self, word: str) -> set[int]:
        cur = {0}
        for ch in word:
            cur = self.step(cur, ord(ch))
        return cur

    def can_reach_final(self) -> set[int]:
        rev: dict[int, set[int]] = {i: set() for i in range(self.n)}
        for a, lst in self.trans.items():
            for _, b in lst:
                rev[b].add(a)
        seen = set(self.finals)
        stack = list(self.finals)
        while stack:
            x = stack.pop()
            for y in rev[x]:
                if y not in seen:
                    seen.add(y)
                    stack.append(y)
        return seen

    def boundaries(self) -> set[int]:
        bs = set()
        for lst in self.trans.values():
            for rs, _ in lst:
                for a, b in rs:
                    bs.add(a)
                    bs.add(b + 1)
        return bs

    def restrict(self, allowed: Ranges) -> "NFA":
        """Same automaton with every transition intersected with `allowed`."""
        out = NFA(self.n)
        out.finals = set(self.finals)
        for a, lst in self.trans.items():
            for rs, b in lst:
                inter = _intersect(rs, allowed)
                if inter:
                    out.add(a, inter, b)
        return out

    # exponential ambiguity: two different runs q ->* q over the same word
    def exponentially_ambiguous(self) -> str | None:
        useful = self.can_reach_final()
        reach0 = {0}
        stack = [0]
        while stack:
            x = stack.pop()
            for _, y in self.trans[x]:
                if y not in reach0:
                    reach0.add(y)
                    stack.append(y)
        live = useful & reach0
        # product graph on pairs (p, q) with edges on overlapping labels
        edges: dict[tuple[int, int], set[tuple[int, int]]] = {}
        for p in live:
            for q in live:
                outs = set()
                for r1, p2 in self.trans[p]:
                    if p2 not in live:
                        continue
                    for r2, q2 in self.trans[q]:
                        if q2 in live and _intersect(r1, r2):
                            outs.add((p2, q2))
                edges[(p, q)] = outs
        # Tarjan SCC
        index: dict[tuple[int, int], int] = {}
        low: dict[tuple[int, int], int] = {}
        onstack: set[tuple[int, int]] = set()
        st: list[tuple[int, int]] = []
        sccs: list[list[tuple[int, int]]] = []
        counter = [0]
        import sys

        sys.setrecursionlimit(max(10000, sys.getrecursionlimit()))

        def strong(v) -> None:
            work = [(v, iter(edges[v]))]
            index[v] = low[v] = counter[0]
            counter[0] += 1
            st.append(v)
            onstack.add(v)
            while work:
                node, it = work[-1]
                advanced = False
                for w in it:
                    if w not in index:
                        index[w] = low[w] = counter[0]
                        counter[0] += 1
                        st.append(w)
                        onstack.add(w)
                        work.append((w, iter(edges[w])))
                        advanced = True
                        break
                    elif w in onstack:
                        low[node] = min(low[node], index[w])
                if advanced:
                    continue
                work.pop()
                if work:
                    parent = work[-1][0]
                    low[parent] = min(low[parent], low[node])
                if low[node] == index[node]:
                    comp = []
                    while True:
                        w = st.pop()
                        onstack.discard(w)
                        comp.append(w)
                        if w == node:
                            break
                    sccs.append(comp)

        for v in edges:
            if v not in index:
                strong(v)
        for comp in sccs:
            if len(comp) == 1 and comp[0] not in edges[comp[0]]:
                continue
            diag = [c for c in comp if c[0] == c[1]]
            off = [c for c in comp if c[0] != c[1]]
            if diag and off:
                return f"state {diag[0][0]} has two distinct loops over the same input (via states {off[0]})"
        return None


def _intersect(a: Ranges, b: Ranges) -> Ranges:
    out = []
    i = j = 0
    while i < len(a) and j < len(b):
        lo = max(a[i][0], b[j][0])
        hi = min(a[i][1], b[j][1])
        if lo <= hi:
            out.append((lo, hi))
        if a[i][1] < b[j][1]:
            i += 1
        else:
            j += 1
    return tuple(out)


# ------------------------------------------------------------------------------- DFA / inclusion
def _intervals(nfas: list[NFA]) -> list[tuple[int, int]]:
    bs = {0, MAXCP + 1}
    for n in nfas:
        bs |= n.boundaries()
    pts = sorted(b for b in bs if 0 <= b <= MAXCP + 1)
    return [(pts[i], pts[i + 1] - 1) for i in range(len(pts) - 1)]


def included(a: NFA, b_list: list[NFA], alphabet: Ranges = ANY, limit: int = 200000) -> str | None:
    """None if L(a) restricted to `alphabet`* is included in the union of L(b); else a witness word."""
    ivs = [iv for iv in _intervals([a] + b_list) if _intersect((iv,), alphabet)]
    start = (frozenset({0}), tuple(frozenset({0}) for _ in b_list))
    seen = {start: ""}
    queue = [start]
    n_seen = 0
    while queue:
        cur = queue.pop(0)
        sa, sbs = cur
        word = seen[cur]
        if sa & a.finals and not any(sb & b.finals for sb, b in zip(sbs, b_list)):
            return word
        n_seen += 1
        if n_seen > limit:
            raise ValueError("inclusion check exceeded its state budget")
        for lo, hi in ivs:
            cp = lo if not (lo < 33 <= hi) else 33
            # pick a printable representative when possible
            for cand in (lo, min(hi, max(lo, 97)), min(hi, max(lo, 48))):
                if lo <= cand <= hi and 32 < cand < 127:
                    cp = cand
                    break
            na = frozenset(a.step(set(sa), cp))
            if not na:
                continue
            nbs = tuple(frozenset(b.step(set(sb), cp)) for sb, b in zip(sbs, b_list))
            nxt = (na, nbs)
            if nxt not in seen:
                seen[nxt] = word + chr(cp)
                queue.append(nxt)
    return None


def first_word_language(line_pattern: Regex, strip_indent: bool = True) -> NFA:
    """Words w (no whitespace) such that some line starting with w (followed by whitespace or the end of the
    line) is matched from its start by `line_pattern` - i.e. w at the start of a wrapped line starts that block.

    Built from the pattern's Glushkov automaton: run it on non-space characters only; a state is accepting if
    the automaton is final there, or can continue with a whitespace character towards a final state."""
    nfa = line_pattern.glushkov()
    useful = nfa.can_reach_final()
    nonspace = _neg(SPACE)
    # states reachable from 0 through optional leading spaces (the " {,3}" indent) count as start states
    starts = {0}
    if strip_indent:
        changed = True
        while changed:
            changed = False
            for s in list(starts):
                for rs, t in nfa.trans[s]:
                    if rs == ((32, 32),) and t not in starts:
                        starts.add(t)
                        changed = True
    out = NFA(nfa.n + 1)
    new0 = nfa.n  # fresh start state that copies the outgoing edges of all start states
    for a, lst in nfa.trans.items():
        for rs, b in lst:
            inter = _intersect(rs, nonspace)
            if inter and b in useful:
                out.add(a, inter, b)
                if a in starts:
                    out.add(new0, inter, b)
    sink = None
    if not line_pattern.end_anchored:
        # re.match semantics: once the pattern has matched a prefix of the line, the rest of the word is free
        sink = out.n
        out.n += 1
        out.trans[sink] = [(nonspace, sink)]
        out.finals.add(sink)
        for s in nfa.finals:
            out.add(s, nonspace, sink)
            if s in starts:
                out.add(new0, nonspace, sink)
    for s in range(nfa.n):
        if s in nfa.finals:
            out.finals.add(s)
        else:
            for rs, t in nfa.trans[s]:
                if _intersect(rs, SPACE) and t in useful:
                    out.finals.add(s)
    # renumber so that the fresh start is state 0
    ren = NFA(out.n)
    for extra in range(nfa.n + 1, out.n):
        ren.trans.setdefault(extra, [])
    perm = {new0: 0, 0: new0}
    f = lambda x: perm.get(x, x)  # noqa: E731
    for a, lst in out.trans.items():
        for rs, b in lst:
            ren.add(f(a), rs, f(b))
    ren.finals = {f(x) for x in out.finals if x != 0 or True}
    ren.finals.discard(0)  # the empty word is not a hazard word
    return ren


def product(a: NFA, b: NFA) -> NFA:
    """Intersection automaton (reachable part)."""
    index: dict[tuple[int, int], int] = {(0, 0): 0}
    out = NFA(1)
    queue = [(0, 0)]
    while queue:
        p, q = queue.pop()
        i = index[(p, q)]
        for r1, p2 in a.trans.get(p, []):
            for r2, q2 in b.trans.get(q, []):
                inter = _intersect(r1, r2)
                if not inter:
                    continue
                if (p2, q2) not in index:
                    index[(p2, q2)] = out.n
                    out.trans[out.n] = []
                    out.n += 1
                    queue.append((p2, q2))
                out.add(i, inter, index[(p2, q2)])
    out.finals = {i for (p, q), i in index.items() if p in a.finals and q in b.finals}
    return out


def is_empty(a: NFA) -> bool:
    return 0 not in a.can_reach_final() and not (0 in a.finals)


def shortest_word(a: NFA, alphabet: Ranges = ANY) -> str | None:
    seen = {0: ""}
    queue = [0]
    while queue:
        s = queue.pop(0)
        if s in a.finals:
            return seen[s]
        for rs, t in a.trans.get(s, []):
            inter = _intersect(rs, alphabet)
            if inter and t not in seen:
                lo, hi = inter[0]
                cp = lo
                for cand in (lo, min(hi, max(lo, 97)), min(hi, max(lo, 48)), min(hi, max(lo, 33))):
                    if lo <= cand <= hi and 32 < cand < 127:
                        cp = cand
                        break
                seen[t] = seen[s] + chr(cp)
                queue.append(t)
    return None
