"""Static model of the argparse parsers built in a function."""

from __future__ import annotations

import ast
from dataclasses import dataclass, field

from .cfg import walk_no_nested
from .loader import AnalysisError, FuncInfo, Repo


@dataclass
class ArgSpec:
    option_strings: list[str]
    dest: str
    action: str = "store"
    nargs: str | None = None
    type: str | None = None
    default: str | None = None  # unparsed expression text, None when absent
    choices: list[str] | None = None
    node: ast.Call | None = None

    @property
    def positional(self) -> bool:
        return not any(o.startswith("-") for o in self.option_strings)

    @property
    def shorts(self) -> list[str]:
        return [o for o in self.option_strings if o.startswith("-") and not o.startswith("--")]

    @property
    def longs(self) -> list[str]:
        return [o for o in self.option_strings if o.startswith("--")]

    @property
    def takes_value(self) -> bool:
        return self.action in ("store", "append", "extend")


@dataclass
class ParserModel:
    var: str
    ctor: ast.Call
    args: list[ArgSpec] = field(default_factory=list)
    parse_calls: list[ast.Call] = field(default_factory=list)

    def by_dest(self) -> dict[str, ArgSpec]:
        return {a.dest: a for a in self.args}


def _kw(call: ast.Call, name: str) -> ast.expr | None:
    for k in call.keywords:
        if k.arg == name:
            return k.value
    return None


def parsers_in(repo: Repo, fi: FuncInfo) -> dict[str, ParserModel]:
    """All ArgumentParser objects bound to a local name in `fi`, with their add_argument calls."""
    models: dict[str, ParserModel] = {}
    for n in walk_no_nested(fi.node):
        if isinstance(n, ast.Assign) and isinstance(n.value, ast.Call):
            r = repo.dotted_name(n.value.func, fi.module, fi)
            if r == "argparse.ArgumentParser" and len(n.targets) == 1 and isinstance(n.targets[0], ast.Name):
                models[n.targets[0].id] = ParserModel(n.targets[0].id, n.value)
    # plain copies of a parser variable (p2 = parser) denote the same object
    alias: dict[str, str] = {}
    changed = True
    while changed:
        changed = False
        for n in walk_no_nested(fi.node):
            if isinstance(n, ast.Assign) and isinstance(n.value, ast.Name) and len(n.targets) == 1 and isinstance(n.targets[0], ast.Name):
                src = alias.get(n.value.id, n.value.id)
                if src in models and n.targets[0].id not in models and alias.get(n.targets[0].id) != src:
                    alias[n.targets[0].id] = src
                    changed = True
    for n in walk_no_nested(fi.node):
        if isinstance(n, ast.Call) and isinstance(n.func, ast.Attribute) and isinstance(n.func.value, ast.Name):
            pm = models.get(alias.get(n.func.value.id, n.func.value.id))
            if pm is None:
                continue
            if n.func.attr == "add_argument":
                pm.args.append(_spec(n, fi))
            elif n.func.attr in ("parse_args", "parse_known_args", "parse_intermixed_args"):
                pm.parse_calls.append(n)
            elif n.func.attr in ("add_mutually_exclusive_group", "add_argument_group", "add_subparsers", "set_defaults"):
                raise AnalysisError(f"argmodel: {fi.qual} uses {n.func.attr}, which the argparse model does not cover")
    return models


def _spec(call: ast.Call, fi: FuncInfo) -> ArgSpec:
    opts: list[str] = []
    for a in call.args:
        if isinstance(a, ast.Constant) and isinstance(a.value, str):
            opts.append(a.value)
        else:
            raise AnalysisError(f"argmodel: non-literal option string in {fi.qual}: {ast.unparse(call)[:80]}")
    dest_e = _kw(call, "dest")
    if dest_e is not None:
        if not (isinstance(dest_e, ast.Constant) and isinstance(dest_e.value, str)):
            raise AnalysisError(f"argmodel: non-literal dest in {fi.qual}")
        dest = dest_e.value
    else:
        longs = [o for o in opts if o.startswith("--")]
        if longs:
            dest = longs[0][2:].replace("-", "_")
        elif opts and opts[0].startswith("-"):
            dest = opts[0][1:].replace("-", "_")
        elif opts:
            dest = opts[0]
        else:
            raise AnalysisError(f"argmodel: add_argument without names in {fi.qual}")
    action_e = _kw(call, "action")
    action = action_e.value if isinstance(action_e, ast.Constant) and isinstance(action_e.value, str) else ("store" if action_e is None else ast.unparse(action_e))
    nargs_e = _kw(call, "nargs")
    type_e = _kw(call, "type")
    default_e = _kw(call, "default")
    choices_e = _kw(call, "choices")
    choices = None
    if choices_e is not None:
        if isinstance(choices_e, (ast.List, ast.Tuple)) and all(isinstance(e, ast.Constant) for e in choices_e.elts):
            choices = [str(e.value) for e in choices_e.elts]  # type: ignore[attr-defined]
        else:
            choices = [ast.unparse(choices_e)]
    return ArgSpec(
        option_strings=opts,
        dest=dest,
        action=action,
        nargs=(ast.unparse(nargs_e) if nargs_e is not None else None),
        type=(ast.unparse(type_e) if type_e is not None else None),
        default=(ast.unparse(default_e) if default_e is not None else None),
        choices=choices,
        node=call,
    )
