"""A small forward must-analysis: which sequences are known to be non-empty at each CFG node.

Facts are access-path keys (`lines`, `element.children`) as produced by the fact extractor of the index rule. A fact holds at a
node when it holds on every feasible path to it. Sources of facts: a test that says so (`if xs:`, `len(xs) > 1`), an append,
a non-empty literal, `s.split(sep)`, an element-wise copy of a non-empty sequence, and - the point of doing this as a
dataflow - a loop over a non-empty sequence runs its body at least once, so what every trip establishes (`cur.append(x)`)
holds after the loop, and a branch that tests a sequence already known to be non-empty has no false arm."""

from __future__ import annotations

import ast
from typing import Callable

from .cfg import Node

_GROW = ("append", "add", "insert", "appendleft")
_SHRINK = ("pop", "clear", "remove", "popleft", "popitem", "discard", "difference_update", "intersection_update")
_PURE_CALLS = ("len", "enumerate", "sorted", "reversed", "zip", "any", "all", "list", "tuple", "set", "frozenset", "iter", "min", "max", "sum", "str", "repr",
               "isinstance", "bool", "print", "range", "map", "filter")
_PURE_METHODS = ("join", "startswith", "endswith", "index", "count", "copy", "format", "get", "items", "keys", "values", "match", "search", "fullmatch",
                 "sub", "split", "strip", "lstrip", "rstrip", "replace", "lower", "upper", "find", "partition", "rpartition", "isdigit", "isspace")


def _kill(state: set[str], name: str) -> None:
    for k in [k for k in state if k == name or k.startswith(name + ".") or k.startswith(name + "[")]:
        state.discard(k)


def _seq_nonempty(e: ast.AST, state: set[str], key_of: Callable[[ast.AST], str | None]) -> bool:
    """is the value of `e` a non-empty sequence, given the facts in `state`?"""
    k = key_of(e)
    if k is not None and k in state:
        return True
    if isinstance(e, (ast.List, ast.Tuple, ast.Set)):
        return bool(e.elts) and not all(isinstance(x, ast.Starred) for x in e.elts)
    if isinstance(e, ast.Constant) and isinstance(e.value, (str, bytes)):
        return len(e.value) > 0
    if isinstance(e, ast.Call):
        f = e.func
        if isinstance(f, ast.Attribute) and f.attr == "split" and e.args:
            return True  # str.split(sep) has at least one element
        if isinstance(f, ast.Name) and f.id in ("enumerate", "sorted", "reversed", "list", "tuple") and len(e.args) >= 1:
            return _seq_nonempty(e.args[0], state, key_of)
        if isinstance(f, ast.Name) and f.id == "zip" and e.args:
            return all(_seq_nonempty(a, state, key_of) for a in e.args)
    if isinstance(e, (ast.ListComp, ast.GeneratorExp)) and len(e.generators) == 1 and not e.generators[0].ifs:
        return _seq_nonempty(e.generators[0].iter, state, key_of)
    if isinstance(e, ast.BinOp) and isinstance(e.op, ast.Add):
        return _seq_nonempty(e.left, state, key_of) or _seq_nonempty(e.right, state, key_of)
    return False


def _pure_emptiness_test(t: ast.AST, key_of) -> tuple[str, bool] | None:
    """(key, polarity) when the truth of `t` is exactly "key is non-empty" (polarity True) or its negation"""
    if isinstance(t, ast.UnaryOp) and isinstance(t.op, ast.Not):
        r = _pure_emptiness_test(t.operand, key_of)
        return None if r is None else (r[0], not r[1])
    k = key_of(t)
    if k is not None:
        return (k, True)
    if isinstance(t, ast.Call) and isinstance(t.func, ast.Name) and t.func.id == "bool" and len(t.args) == 1:
        return _pure_emptiness_test(t.args[0], key_of)
    if isinstance(t, ast.Compare) and len(t.ops) == 1 and isinstance(t.left, ast.Call) and isinstance(t.left.func, ast.Name) and t.left.func.id == "len" \
            and len(t.left.args) == 1 and isinstance(t.comparators[0], ast.Constant) and isinstance(t.comparators[0].value, int):
        k = key_of(t.left.args[0])
        c, op = t.comparators[0].value, t.ops[0]
        if k is None:
            return None
        if (isinstance(op, ast.Gt) and c == 0) or (isinstance(op, ast.GtE) and c == 1) or (isinstance(op, ast.NotEq) and c == 0):
            return (k, True)
        if (isinstance(op, ast.Eq) and c == 0) or (isinstance(op, ast.Lt) and c == 1) or (isinstance(op, ast.LtE) and c == 0):
            return (k, False)
    return None


def nonempty_at(flow, facts_of: Callable[[ast.AST, bool], set[str]], key_of: Callable[[ast.AST], str | None]) -> dict[Node, set[str] | None]:
    """facts known at the entry of each node (None = not reached)"""
    cfg = flow.cfg
    state_in: dict[Node, set[str] | None] = {n: None for n in cfg.nodes}
    state_in[cfg.entry] = set()
    bodies: dict[Node, set[Node]] = {h: flow.loop_body_nodes(h) for h in cfg.nodes if h.kind == "for"}

    def transfer(n: Node, s: set[str]) -> set[str]:
        s = set(s)
        a = n.ast
        if n.kind == "stmt" and isinstance(a, ast.Assign):
            ne = _seq_nonempty(a.value, s, key_of)
            for t in a.targets:
                if isinstance(t, ast.Name):
                    _kill(s, t.id)
                    if ne:
                        s.add(t.id)
                elif isinstance(t, (ast.Tuple, ast.List)):
                    for x in ast.walk(t):
                        if isinstance(x, ast.Name):
                            _kill(s, x.id)
                elif isinstance(t, ast.Attribute):
                    k = key_of(t)
                    if k:
                        _kill(s, k)
                        if ne:
                            s.add(k)
        elif n.kind == "stmt" and isinstance(a, ast.AugAssign) and isinstance(a.target, ast.Name):
            if isinstance(a.op, ast.Add):
                if _seq_nonempty(a.value, s, key_of):
                    s.add(a.target.id)
            else:
                _kill(s, a.target.id)
        elif n.kind == "stmt" and isinstance(a, ast.Delete):
            for t in a.targets:
                base = t.value if isinstance(t, ast.Subscript) else t
                k = key_of(base) if isinstance(base, (ast.Name, ast.Attribute)) else None
                if k:
                    _kill(s, k.split(".")[0] if "." not in k else k)
        elif n.kind in ("with", "withitem") and a is not None:
            for x in ast.walk(a):
                if isinstance(x, ast.Name) and isinstance(x.ctx, ast.Store):
                    _kill(s, x.id)
        # calls anywhere in the node: growing / shrinking methods, and arguments handed to code that may change them
        exprs = [a] if isinstance(a, ast.AST) else []
        for ex in exprs:
            for c in ast.walk(ex):
                if not isinstance(c, ast.Call):
                    continue
                f = c.func
                if isinstance(f, ast.Attribute):
                    k = key_of(f.value)
                    if k is not None:
                        if f.attr in _GROW:
                            s.add(k)
                        elif f.attr == "extend" and c.args and _seq_nonempty(c.args[0], s, key_of):
                            s.add(k)
                        elif f.attr in _SHRINK:
                            _kill(s, k)
                pure = (isinstance(f, ast.Name) and f.id in _PURE_CALLS) or (isinstance(f, ast.Attribute) and f.attr in _PURE_METHODS + _GROW + ("extend",))
                if not pure:
                    for arg in list(c.args) + [kw.value for kw in c.keywords]:
                        k = key_of(arg)
                        if k is not None:
                            _kill(s, k)
        return s

    def edge_state(p: Node, lab: str, s_in: set[str], s_out: set[str]) -> set[str] | None:
        if p.kind == "test" and lab in ("T", "F") and isinstance(p.ast, ast.expr):
            pe = _pure_emptiness_test(p.ast, key_of)
            if pe is not None:
                k, pol = pe
                if k in s_in and (lab == "T") != pol:
                    return None  # the sequence is known to be non-empty: this arm is never taken
            return set(s_out) | facts_of(p.ast, lab == "T")
        if p.kind == "for" and lab == "iter":
            s = set(s_out)
            for x in ast.walk(p.ast.target):
                if isinstance(x, ast.Name):
                    _kill(s, x.id)
            return s
        if lab == "exc":
            return set(s_in)
        return set(s_out)

    work = [cfg.entry]
    guard = 0
    while work and guard < 20000:
        guard += 1
        n = work.pop()
        s_in = state_in[n]
        if s_in is None:
            continue
        if n.kind == "for":
            # the "done" edge: with a non-empty iterable (judged on the way *into* the loop) the body ran at least once, so only
            # what holds at the end of a trip (the back edges) reaches the exit
            entry_states = [state_out_cache.get((p, lab)) for p, lab in n.pred if p not in bodies[n]]
            back_states = [state_out_cache.get((p, lab)) for p, lab in n.pred if p in bodies[n]]
            entry_states = [x for x in entry_states if x is not None]
            back_states = [x for x in back_states if x is not None]
            pre = set.intersection(*entry_states) if entry_states else set()
            runs = bool(entry_states) and _seq_nonempty(n.ast.iter, pre, key_of)
            done_state = (set.intersection(*back_states) if back_states else None) if runs else set(s_in)
        for s_, lab in n.succ:
            if n.kind == "for" and lab == "done":
                new = done_state
            else:
                s_out = transfer(n, s_in) if n.kind not in ("test", "for") else set(s_in)
                new = edge_state(n, lab, s_in, s_out)
            changed_edge = (n, lab) not in state_out_cache or state_out_cache[(n, lab)] != new
            state_out_cache[(n, lab)] = new
            if new is None:
                continue
            if changed_edge and s_.kind == "for" and state_in[s_] is not None:
                work.append(s_)  # (its exit state is computed from the edge states, not only from their intersection)
            # in[s_] = intersection over the edges that reach it
            incoming = [state_out_cache.get((p, l2)) for p, l2 in s_.pred]
            known = [x for x in incoming if x is not None]
            merged = set.intersection(*known) if known else set()
            # (every edge state only ever shrinks, and unreached / infeasible edges only ever become reached: the iteration
            # descends to the greatest fixpoint, which is what a must-analysis wants)
            if state_in[s_] is None or merged != state_in[s_]:
                state_in[s_] = merged if state_in[s_] is None else (state_in[s_] & merged)
                work.append(s_)
    return state_in


state_out_cache: dict = {}


def compute(flow, facts_of, key_of) -> dict[Node, set[str] | None]:
    """fresh run (the module-level scratch table is per run)"""
    global state_out_cache
    state_out_cache = {}
    return nonempty_at(flow, facts_of, key_of)
