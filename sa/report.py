"""Obligations, known-findings matching, exit protocol, evidence files."""

from __future__ import annotations

import json
import os
import re
import time
from dataclasses import dataclass, field
from pathlib import Path

from .loader import AnalysisError

VERIF = Path(__file__).resolve().parent.parent
EVIDENCE_DIR = VERIF / "evidence"
REPLAY_DIR = EVIDENCE_DIR / "replay"
KNOWN_FILE = VERIF / "known_findings.json"


_INLINE_NAMES = re.compile(r"__i\d+_(?=[A-Za-z_])")


@dataclass
class Obligation:
    rule: str
    construct: str  # line-free key: module:qualname [:: normalised text / instance]
    ok: bool
    detail: str
    where: str = ""  # file:line, for diagnosis only (never used as a key)
    path: list[str] = field(default_factory=list)

    def key(self) -> tuple[str, str]:
        return (self.rule, self.construct)

    def to_json(self) -> dict:
        d = {"rule": self.rule, "construct": self.construct, "ok": self.ok, "detail": self.detail}
        if self.where:
            d["where"] = self.where
        if self.path:
            d["path"] = self.path
        return d


class Ctx:
    """Collects the obligations of one property check."""

    def __init__(self, prop: str, tier: str, repo, prog) -> None:
        self.prop = prop
        self.tier = tier
        self.repo = repo
        self.prog = prog
        self.obligations: list[Obligation] = []
        self.analysed: dict[str, object] = {}
        self.assumptions: list[str] = []
        self.rules_text: dict[str, str] = {}
        self.t0 = time.time()
        self._seen_keys: dict[tuple[str, str], int] = {}
        self.analysis_errors: list[str] = []

    def rule(self, rule_id: str, text: str) -> None:
        self.rules_text[rule_id] = text

    def ob(self, rule: str, construct: str, ok: bool, detail: str, where: str = "", path: list[str] | None = None) -> bool:
        # names made up by the inlined view (locals of spliced helpers, hoisted results) are not part of a construct's identity
        construct = _INLINE_NAMES.sub("", construct)
        # distinct sites with the same textual key get an ordinal (document order), never a line number
        k = self._seen_keys.get((rule, construct), 0) + 1
        self._seen_keys[(rule, construct)] = k
        if k > 1:
            construct = f"{construct} #{k}"
        self.obligations.append(Obligation(rule, construct, bool(ok), detail, where, path or []))
        return bool(ok)

    def require(self, rule: str, what: str, found: int, minimum: int) -> None:
        """A rule that matches fewer instances than confirmed by hand must not pass vacuously."""
        if found < minimum:
            self.analysis_errors.append(
                f"{rule}: found {found} {what}, expected at least {minimum} (anchor vanished or shape not understood)"
            )

    def run(self, fn, *args) -> None:
        """Run one rule function; an AnalysisError inside it is recorded and the other rules still run."""
        try:
            fn(self, *args)
        except AnalysisError as e:
            self.analysis_errors.append(f"{getattr(fn, '__name__', 'rule')}: {e}")
        except Exception as e:  # noqa: BLE001 - an analyser crash is never a verdict; other rules still run
            import traceback

            traceback.print_exc()
            self.analysis_errors.append(f"{getattr(fn, '__name__', 'rule')}: analyser crashed: {type(e).__name__}: {e}")

    def note(self, key: str, value) -> None:
        self.analysed[key] = value

    def count(self, key: str, n: int = 1) -> None:
        self.analysed[key] = int(self.analysed.get(key, 0)) + n  # type: ignore[arg-type]

    def assume(self, text: str) -> None:
        if text not in self.assumptions:
            self.assumptions.append(text)


def load_known() -> list[dict]:
    if not KNOWN_FILE.exists():
        return []
    data = json.loads(KNOWN_FILE.read_text())
    return list(data.get("findings", []))


def _matches(entry: dict, prop: str, ob: Obligation) -> bool:
    if entry.get("status") != "known":
        return False  # "fixed" entries suppress nothing
    if prop not in entry.get("properties", [entry.get("property")]):
        return False
    return entry.get("rule") == ob.rule and entry.get("construct") == ob.construct


def finish(ctx: Ctx, explanation: str, replay_filter: dict | None = None) -> int:
    """Print the verdict lines, write evidence, return the exit status."""
    known = load_known()
    failing = [o for o in ctx.obligations if not o.ok]
    # de-duplicate failing obligations by key (same construct reported through several paths)
    uniq: dict[tuple[str, str], Obligation] = {}
    for o in failing:
        uniq.setdefault(o.key(), o)
    violations: list[Obligation] = []
    known_hit: list[tuple[Obligation, dict]] = []
    for o in uniq.values():
        entry = next((e for e in known if _matches(e, ctx.prop, o)), None)
        if entry is not None:
            known_hit.append((o, entry))
        else:
            violations.append(o)
    if replay_filter is not None:
        violations = [o for o in violations if o.rule == replay_filter.get("rule") and o.construct == replay_filter.get("construct")]
        known_hit = []
    for o, entry in known_hit:
        print(f"KNOWN-FINDING: property={ctx.prop} {entry.get('id', '')} {o.rule} {o.construct} - {entry.get('what_fails', o.detail)}")
    rc = 0
    replay_dir = REPLAY_DIR
    if os.environ.get("VERIF_NO_EVIDENCE"):
        import tempfile

        replay_dir = Path(tempfile.gettempdir()) / "flowmark-verif-replay"
    replay_dir.mkdir(parents=True, exist_ok=True)
    for i, o in enumerate(violations):
        rp = replay_dir / f"{ctx.prop}-{i}.json"
        rp.write_text(
            json.dumps(
                {
                    "property": ctx.prop,
                    "rule": o.rule,
                    "rule_text": ctx.rules_text.get(o.rule, ""),
                    "construct": o.construct,
                    "where": o.where,
                    "detail": o.detail,
                    "path": o.path,
                    "replay_cmd": f"./check {ctx.prop} --replay {rp}",
                },
                indent=1,
            )
        )
        print(f"  {o.where or '-'}: [{o.rule}] {o.construct}: {o.detail}")
        for step in o.path[:12]:
            print(f"      {step}")
        print(f"VIOLATION property={ctx.prop} replay={rp}")
        rc = 1
    if replay_filter is None and not os.environ.get("VERIF_NO_EVIDENCE"):
        write_evidence(ctx, explanation, len(violations), [o for o, _ in known_hit])
    if ctx.analysis_errors and replay_filter is None:
        # a violation found elsewhere is still a verdict; without one the run cannot be called a pass
        for e in ctx.analysis_errors:
            print(f"ANALYSIS-ERROR property={ctx.prop} {e}")
        if rc == 0:
            rc = 2
    n = len(ctx.obligations)
    n_ok = sum(1 for o in ctx.obligations if o.ok)
    if os.environ.get("VERIF_VERBOSE"):
        for o in ctx.obligations:
            print(f"  {'ok  ' if o.ok else 'FAIL'} [{o.rule}] {o.construct}  ({o.where})")
    print(
        f"{ctx.prop} [{ctx.tier}] obligations={n} discharged={n_ok} known-findings={len(known_hit)} "
        f"violations={len(violations)} wall={time.time() - ctx.t0:.2f}s"
    )
    return rc


def write_evidence(ctx: Ctx, explanation: str, n_viol: int, known_hit: list[Obligation]) -> None:
    EVIDENCE_DIR.mkdir(parents=True, exist_ok=True)
    obs = ctx.obligations
    distinct = {o.key() for o in obs}
    by_rule: dict[str, dict[str, int]] = {}
    for o in obs:
        r = by_rule.setdefault(o.rule, {"obligations": 0, "discharged": 0})
        r["obligations"] += 1
        r["discharged"] += 1 if o.ok else 0
    # samples: first obligation of each rule (+ failing ones), written out
    samples = []
    seen_rules: set[str] = set()
    for o in obs:
        if o.rule not in seen_rules or not o.ok:
            seen_rules.add(o.rule)
            samples.append(o.to_json())
        if len(samples) >= 40:
            break
    seed = 0
    try:
        seed = int(os.environ.get("VERIF_SEED", "0"))
    except ValueError:
        seed = 0
    ev = {
        "property_id": ctx.prop,
        "tier": ctx.tier,
        "seed": seed,
        "level": "other",
        "coverage": {
            "explanation": explanation,
            "obligations": len(obs),
            "discharged": sum(1 for o in obs if o.ok),
            "evaluations": len(obs),
            "distinct_nontrivial": len(distinct),
            "rule": "one obligation per (static rule, construct) instance found in the current working tree; "
            "distinct = distinct (rule, construct key) pairs; every obligation is a non-trivial structural "
            "condition (trivially-true instances are not generated)",
            "rules": {k: {"text": ctx.rules_text.get(k, ""), **v} for k, v in sorted(by_rule.items())},
            "analysed": ctx.analysed,
            "samples": samples,
            "known_findings_hit": [o.to_json() for o in known_hit],
            "exhaustive": True,
            "technique": "static analysis (ast, CFG, reaching definitions, slicing, call graph, regex automata); "
            "no flowmark code is imported or executed",
        },
        "assumptions": ctx.assumptions,
        "wall_s": round(time.time() - ctx.t0, 3),
        "violations": n_viol,
    }
    (EVIDENCE_DIR / f"{ctx.prop}.json").write_text(json.dumps(ev, indent=1, ensure_ascii=False, default=str) + "\n")
