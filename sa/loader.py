"""Load the repository working tree as ASTs with symbol / import / class tables.

The repository root is taken from $FLOWMARK_REPO (default /repo) so that the
self-test can point the same machinery at scratch copies.
"""

from __future__ import annotations

import ast
import os
import sys
from dataclasses import dataclass, field
from pathlib import Path


class AnalysisError(Exception):
    """The analyser cannot decide (anchor vanished, shape not understood).

    Mapped to exit status 2 / an ANALYSIS-ERROR line, never to a verdict.
    """


def repo_root() -> Path:
    return Path(os.environ.get("FLOWMARK_REPO", "/repo"))


def site_packages() -> Path:
    env = os.environ.get("FLOWMARK_SITE_PACKAGES")
    if env:
        return Path(env)
    for cand in sorted(Path("/venv/lib").glob("python3*/site-packages")):
        if (cand / "marko").is_dir():
            return cand
    for p in sys.path:
        if p and (Path(p) / "marko").is_dir():
            return Path(p)
    raise AnalysisError("cannot locate site-packages with marko (dependency sources are read as text)")


@dataclass
class ImportRef:
    kind: str  # "mod" (import a.b as c) | "sym" (from a.b import c)
    module: str
    symbol: str | None = None

    def dotted(self) -> str:
        return self.module if self.kind == "mod" else f"{self.module}.{self.symbol}"


@dataclass(eq=False)
class FuncInfo:
    qual: str  # "flowmark.cli:main", "flowmark.x:Class.meth", "flowmark.x:outer.<locals>.inner"
    name: str
    node: ast.FunctionDef | ast.AsyncFunctionDef | ast.Lambda
    module: "Module"
    cls: "ClassInfo | None" = None
    parent: "FuncInfo | None" = None
    local_imports: dict[str, ImportRef] = field(default_factory=dict)
    local_defs: dict[str, "FuncInfo | ClassInfo"] = field(default_factory=dict)

    @property
    def params(self) -> list[str]:
        a = self.node.args
        return [x.arg for x in (a.posonlyargs + a.args)] + ([a.vararg.arg] if a.vararg else []) + [
            x.arg for x in a.kwonlyargs
        ] + ([a.kwarg.arg] if a.kwarg else [])

    @property
    def decorators(self) -> list[str]:
        if isinstance(self.node, ast.Lambda):
            return []
        return [ast.unparse(d) for d in self.node.decorator_list]

    def __repr__(self) -> str:
        return f"<func {self.qual}>"


@dataclass(eq=False)
class ClassInfo:
    qual: str
    name: str
    node: ast.ClassDef
    module: "Module"
    parent_func: FuncInfo | None = None
    methods: dict[str, FuncInfo] = field(default_factory=dict)
    class_attrs: dict[str, ast.AST] = field(default_factory=dict)  # name -> value node (or annotation)

    @property
    def base_exprs(self) -> list[ast.expr]:
        return list(self.node.bases)

    def __repr__(self) -> str:
        return f"<class {self.qual}>"


@dataclass(eq=False)
class ConstInfo:
    qual: str
    name: str
    module: "Module"
    assigns: list[ast.stmt]  # module-level Assign/AnnAssign statements that bind the name

    @property
    def value(self) -> ast.expr | None:
        last = self.assigns[-1]
        return getattr(last, "value", None)


@dataclass(eq=False)
class Module:
    name: str  # "flowmark.cli"
    path: Path
    source: str
    tree: ast.Module
    imports: dict[str, ImportRef] = field(default_factory=dict)
    defs: dict[str, "FuncInfo | ClassInfo | ConstInfo"] = field(default_factory=dict)

    @property
    def rel(self) -> str:
        return self.name

    def line(self, n: int) -> str:
        lines = self.source.splitlines()
        return lines[n - 1] if 0 < n <= len(lines) else ""


def _desugar_match(tree: ast.AST) -> None:
    """`match` statements whose patterns are values, classes (with keyword sub-patterns), captures, or-patterns without
    captures and fixed-length sequences are rewritten into the if / elif chain of isinstance / == / len tests they stand for,
    with the captures as assignments at the top of each arm (the analysis reads code, it never runs it: the chain has the
    same branches, the same conditions and the same bindings). Anything richer (star patterns, mappings, positional
    sub-patterns of user classes) is left as it is."""
    import copy

    class _No(Exception):
        pass

    def tr(p: ast.pattern, subj: ast.expr, binds: list) -> ast.expr | None:
        """test expression for `subj` matching p (None = always true); appends (name, expr) captures to binds"""
        if isinstance(p, ast.MatchValue):
            return ast.Compare(left=copy.deepcopy(subj), ops=[ast.Eq()], comparators=[p.value])
        if isinstance(p, ast.MatchSingleton):
            return ast.Compare(left=copy.deepcopy(subj), ops=[ast.Is()], comparators=[ast.Constant(value=p.value)])
        if isinstance(p, ast.MatchAs):
            t = tr(p.pattern, subj, binds) if p.pattern is not None else None
            if p.name is not None:
                binds.append((p.name, copy.deepcopy(subj)))
            return t
        if isinstance(p, ast.MatchOr):
            parts = []
            for alt in p.patterns:
                b2: list = []
                t = tr(alt, subj, b2)
                if b2:
                    raise _No()
                if t is None:
                    return None
                parts.append(t)
            return ast.BoolOp(op=ast.Or(), values=parts)
        if isinstance(p, ast.MatchClass):
            if p.patterns:
                raise _No()
            tests: list[ast.expr] = []
            is_object = isinstance(p.cls, ast.Name) and p.cls.id == "object"
            if not is_object:
                tests.append(ast.Call(func=ast.Name(id="isinstance", ctx=ast.Load()), args=[copy.deepcopy(subj), p.cls], keywords=[]))
            for attr, sub in zip(p.kwd_attrs, p.kwd_patterns):
                if is_object:
                    tests.append(ast.Call(func=ast.Name(id="hasattr", ctx=ast.Load()), args=[copy.deepcopy(subj), ast.Constant(value=attr)], keywords=[]))
                t = tr(sub, ast.Attribute(value=copy.deepcopy(subj), attr=attr, ctx=ast.Load()), binds)
                if t is not None:
                    tests.append(t)
            if not tests:
                return None
            return tests[0] if len(tests) == 1 else ast.BoolOp(op=ast.And(), values=tests)
        if isinstance(p, ast.MatchSequence):
            if any(isinstance(x, ast.MatchStar) for x in p.patterns):
                raise _No()
            tests = [ast.Compare(left=ast.Call(func=ast.Name(id="len", ctx=ast.Load()), args=[copy.deepcopy(subj)], keywords=[]), ops=[ast.Eq()],
                                 comparators=[ast.Constant(value=len(p.patterns))])]
            for i, sub in enumerate(p.patterns):
                t = tr(sub, ast.Subscript(value=copy.deepcopy(subj), slice=ast.Constant(value=i), ctx=ast.Load()), binds)
                if t is not None:
                    tests.append(t)
            return tests[0] if len(tests) == 1 else ast.BoolOp(op=ast.And(), values=tests)
        raise _No()

    class _T(ast.NodeTransformer):
        def visit_Match(self, node: ast.Match):
            self.generic_visit(node)
            subj = node.subject

            def pure(e: ast.AST) -> bool:
                return isinstance(e, (ast.Name, ast.Constant)) or (isinstance(e, ast.Attribute) and pure(e.value)) \
                    or (isinstance(e, ast.Subscript) and pure(e.value) and all(isinstance(x, (ast.Name, ast.Constant, ast.BinOp, ast.UnaryOp)) for x in [e.slice]))
            tuple_subject = isinstance(subj, ast.Tuple) and all(pure(x) for x in subj.elts)
            if not isinstance(subj, (ast.Name, ast.Attribute)) and not tuple_subject:
                return node
            arms: list[tuple[ast.expr | None, list[ast.stmt]]] = []
            try:
                for case in node.cases:
                    binds: list = []
                    if tuple_subject:
                        # match a, b:  case (P, Q)  ->  P on a and Q on b (the tuple has exactly that many elements)
                        pat = case.pattern
                        if isinstance(pat, ast.MatchAs) and pat.pattern is None and pat.name is None:
                            t = None
                        elif isinstance(pat, ast.MatchSequence) and len(pat.patterns) == len(subj.elts) and not any(isinstance(x, ast.MatchStar) for x in pat.patterns):
                            parts_ = [tr(sp, el, binds) for sp, el in zip(pat.patterns, subj.elts)]
                            parts_ = [x for x in parts_ if x is not None]
                            t = None if not parts_ else (parts_[0] if len(parts_) == 1 else ast.BoolOp(op=ast.And(), values=parts_))
                        else:
                            raise _No()
                    else:
                        t = tr(case.pattern, subj, binds)
                    guard = case.guard
                    if guard is not None and binds:
                        # the guard may mention the captures: read them as the expressions they are bound to
                        m = dict(binds)

                        class _Sub(ast.NodeTransformer):
                            def visit_Name(s2, n: ast.Name):  # noqa: N805
                                return copy.deepcopy(m[n.id]) if n.id in m and isinstance(n.ctx, ast.Load) else n
                        guard = _Sub().visit(copy.deepcopy(guard))
                    if guard is not None:
                        t = guard if t is None else ast.BoolOp(op=ast.And(), values=[t, guard])
                    body = [ast.copy_location(ast.Assign(targets=[ast.Name(id=nm, ctx=ast.Store())], value=ex, type_comment=None), case.pattern)
                            for nm, ex in binds] + list(case.body)
                    arms.append((t, body))
            except _No:
                return node
            # build the chain from the last arm backwards
            tail: list[ast.stmt] = []
            for t, body in reversed(arms):
                if t is None:
                    tail = body  # irrefutable arm: whatever followed it is unreachable
                else:
                    ifn = ast.If(test=t, body=body, orelse=tail)
                    tail = [ast.copy_location(ifn, node)]
            if not tail:
                return ast.copy_location(ast.Pass(), node)
            for st in tail:
                ast.fix_missing_locations(ast.copy_location(st, node))
            return tail

    _T().visit(tree)
    ast.fix_missing_locations(tree)


def _hoist_walrus(tree: ast.AST) -> None:
    """`if (x := e) <rest>:` reads `x = e` followed by `if x <rest>:` when the assignment expression is the first thing the
    condition evaluates (leftmost operand, outside any short-circuit): same order of evaluation, same binding."""
    def first_evaluated(e: ast.expr) -> tuple[ast.AST, str, ast.NamedExpr] | None:
        """(parent, field, NamedExpr) of a walrus that is evaluated first and unconditionally"""
        parent_, fld = None, None
        cur = e
        while True:
            if isinstance(cur, ast.NamedExpr) and isinstance(cur.target, ast.Name):
                return (parent_, fld, cur)
            if isinstance(cur, ast.BoolOp):
                parent_, fld, cur = cur, "values0", cur.values[0]
            elif isinstance(cur, ast.UnaryOp):
                parent_, fld, cur = cur, "operand", cur.operand
            elif isinstance(cur, ast.Compare):
                parent_, fld, cur = cur, "left", cur.left
            else:
                return None

    class _T(ast.NodeTransformer):
        def _block(self, stmts: list[ast.stmt]) -> list[ast.stmt]:
            out: list[ast.stmt] = []
            for st in stmts:
                st = self.visit(st)
                for _ in range(4):
                    if not isinstance(st, ast.If):
                        break
                    hit = first_evaluated(st.test)
                    if hit is None:
                        break
                    par, fld, ne = hit
                    out.append(ast.copy_location(ast.Assign(targets=[ast.Name(id=ne.target.id, ctx=ast.Store())], value=ne.value, type_comment=None), st))
                    repl = ast.copy_location(ast.Name(id=ne.target.id, ctx=ast.Load()), ne)
                    if par is None:
                        st.test = repl
                    elif fld == "values0":
                        par.values[0] = repl
                    else:
                        setattr(par, fld, repl)
                out.append(st)
            return out

        def generic_visit(self, node):
            super().generic_visit(node)
            for fld in ("body", "orelse", "finalbody"):
                v = getattr(node, fld, None)
                if isinstance(v, list) and v and isinstance(v[0], ast.stmt):
                    setattr(node, fld, self._block_noreenter(v))
            return node

        def _block_noreenter(self, stmts):
            out: list[ast.stmt] = []
            for st in stmts:
                for _ in range(4):
                    if not isinstance(st, ast.If):
                        break
                    hit = first_evaluated(st.test)
                    if hit is None:
                        break
                    par, fld, ne = hit
                    out.append(ast.copy_location(ast.Assign(targets=[ast.Name(id=ne.target.id, ctx=ast.Store())], value=ne.value, type_comment=None), st))
                    repl = ast.copy_location(ast.Name(id=ne.target.id, ctx=ast.Load()), ne)
                    if par is None:
                        st.test = repl
                    elif fld == "values0":
                        par.values[0] = repl
                    else:
                        setattr(par, fld, repl)
                out.append(st)
            return out

    _T().visit(tree)
    ast.fix_missing_locations(tree)


def _unalias_bound_methods(tree: ast.AST) -> None:
    """append = result.append ... append(x)   ->   result.append(x)
    A local bound once to a method of another local / parameter that is itself never rebound, and used for nothing but
    being called (the "bind the attribute lookup outside the hot loop" idiom)."""
    for fn in [n for n in ast.walk(tree) if isinstance(n, (ast.FunctionDef, ast.AsyncFunctionDef))]:
        own: list[ast.AST] = []
        stack: list[ast.AST] = list(fn.body)
        while stack:
            x = stack.pop()
            own.append(x)
            for ch in ast.iter_child_nodes(x):
                if not isinstance(ch, (ast.FunctionDef, ast.AsyncFunctionDef, ast.Lambda, ast.ClassDef)):
                    stack.append(ch)
        nested_names = {y.id for n in ast.walk(fn) if n is not fn and isinstance(n, (ast.FunctionDef, ast.AsyncFunctionDef, ast.Lambda))
                        for y in ast.walk(n) if isinstance(y, ast.Name)}
        stores: dict[str, int] = {}
        for x in own:
            if isinstance(x, ast.Name) and isinstance(x.ctx, (ast.Store, ast.Del)):
                stores[x.id] = stores.get(x.id, 0) + 1
            if isinstance(x, (ast.Global, ast.Nonlocal)):
                for nm in x.names:
                    stores[nm] = stores.get(nm, 0) + 2
        params = {a.arg for a in fn.args.posonlyargs + fn.args.args + fn.args.kwonlyargs}
        for blk in [n for n in ast.walk(fn) if hasattr(n, "body") and isinstance(getattr(n, "body"), list)]:
            for fld in ("body", "orelse", "finalbody"):
                lst = getattr(blk, fld, None)
                if not isinstance(lst, list):
                    continue
                for st in list(lst):
                    if not (isinstance(st, ast.Assign) and len(st.targets) == 1 and isinstance(st.targets[0], ast.Name) and isinstance(st.value, ast.Attribute)
                            and isinstance(st.value.value, ast.Name) and st in own):
                        continue
                    n_, x_ = st.targets[0].id, st.value.value.id
                    if stores.get(n_) != 1 or n_ in params or n_ in nested_names or stores.get(x_, 0) > (0 if x_ in params else 1):
                        continue
                    if x_ not in params and x_ not in stores:
                        continue  # a module-level / closure name: the attribute may be a plain function, leave it
                    loads = [y for y in own if isinstance(y, ast.Name) and y.id == n_ and isinstance(y.ctx, ast.Load)]
                    calls = [y for y in own if isinstance(y, ast.Call) and isinstance(y.func, ast.Name) and y.func.id == n_]
                    if not loads or len(loads) != len(calls):
                        continue
                    for c in calls:
                        c.func = ast.copy_location(ast.Attribute(value=ast.Name(id=x_, ctx=ast.Load()), attr=st.value.attr, ctx=ast.Load()), c.func)
                    lst.remove(st)
                    if not lst:
                        lst.append(ast.copy_location(ast.Pass(), st))
    ast.fix_missing_locations(tree)


def _desugar_functional(tree: ast.AST) -> None:
    """map(f, xs)  ->  (f(__m) for __m in xs);   chain.from_iterable(e) with e a generator / comprehension over calls
    ->  the flattened generator;  filter(None, xs) stays. Only for `f` a plain name or attribute (a function, not a lambda)
    and one iterable: the element-wise call is then visible to everything that follows calls."""
    counter = [0]

    class _T(ast.NodeTransformer):
        def visit_Call(self, node: ast.Call):
            self.generic_visit(node)
            if isinstance(node.func, ast.Name) and node.func.id == "map" and len(node.args) == 2 and not node.keywords \
                    and isinstance(node.args[0], (ast.Name, ast.Attribute)) and not isinstance(node.args[1], ast.Starred):
                counter[0] += 1
                v = f"__m{counter[0]}"
                call = ast.Call(func=node.args[0], args=[ast.Name(id=v, ctx=ast.Load())], keywords=[])
                gen = ast.GeneratorExp(elt=call, generators=[ast.comprehension(target=ast.Name(id=v, ctx=ast.Store()), iter=node.args[1], ifs=[], is_async=0)])
                return ast.copy_location(gen, node)
            f = node.func
            if isinstance(f, ast.Attribute) and f.attr == "from_iterable" and isinstance(f.value, (ast.Name, ast.Attribute)) \
                    and (f.value.id if isinstance(f.value, ast.Name) else f.value.attr) == "chain" and len(node.args) == 1 and not node.keywords \
                    and isinstance(node.args[0], (ast.GeneratorExp, ast.ListComp)) and len(node.args[0].generators) == 1:
                inner = node.args[0]
                counter[0] += 1
                v = f"__m{counter[0]}"
                gen = ast.GeneratorExp(elt=ast.Name(id=v, ctx=ast.Load()), generators=[
                    inner.generators[0],
                    ast.comprehension(target=ast.Name(id=v, ctx=ast.Store()), iter=inner.elt, ifs=[], is_async=0)])
                return ast.copy_location(gen, node)
            return node

    _T().visit(tree)
    ast.fix_missing_locations(tree)


def _fold_self_assign(tree: ast.AST) -> None:
    """x = x + e  ->  x += e   (inside functions; x a local name or `name[constant]`, not an attribute: rebinding an attribute
    and growing the object it holds are different things when the object is shared). For the str / int values this spelling is
    used on in the package the two are the same statement; a list held by a local is only ever seen through that local."""
    class _T(ast.NodeTransformer):
        def __init__(self) -> None:
            self.depth = 0

        def _fn(self, node):
            self.depth += 1
            self.generic_visit(node)
            self.depth -= 1
            return node

        visit_FunctionDef = visit_AsyncFunctionDef = _fn

        def visit_Assign(self, node: ast.Assign):
            if self.depth > 0 and len(node.targets) == 1 and isinstance(node.value, ast.BinOp) and isinstance(node.value.op, (ast.Add, ast.Sub, ast.Mult)):
                t = node.targets[0]
                simple = isinstance(t, ast.Name) or (isinstance(t, ast.Subscript) and isinstance(t.value, ast.Name) and (
                    isinstance(t.slice, ast.Constant) or (isinstance(t.slice, ast.UnaryOp) and isinstance(t.slice.operand, ast.Constant))))
                if simple and ast.dump(node.value.left) == ast.dump(t).replace("Store()", "Load()"):
                    return ast.copy_location(ast.AugAssign(target=t, op=node.value.op, value=node.value.right), node)
            return node

    _T().visit(tree)
    ast.fix_missing_locations(tree)


def _expand_method_aliases(tree: ast.AST) -> None:
    """class R: def _code(self, el): ...; render_code_block = render_fenced_code = _code
       ->   def render_code_block(self, el): return self._code(el)   (one forwarding method per alias)
    A class attribute bound to a method of the same class is that method under another name; marko's render_<type> dispatch
    and every rule that looks methods up by name see it that way."""
    import copy

    for cls in [n for n in ast.walk(tree) if isinstance(n, ast.ClassDef)]:
        methods = {st.name: st for st in cls.body if isinstance(st, ast.FunctionDef)}
        new_body: list[ast.stmt] = []
        for st in cls.body:
            if isinstance(st, ast.Assign) and isinstance(st.value, ast.Name) and st.value.id in methods and all(isinstance(t, ast.Name) for t in st.targets):
                m = methods[st.value.id]
                a = m.args
                plain = not (a.vararg or a.kwarg or a.kwonlyargs or a.posonlyargs) and a.args and not m.decorator_list
                if plain:
                    for t in st.targets:
                        args = copy.deepcopy(a)
                        call = ast.Call(func=ast.Attribute(value=ast.Name(id=a.args[0].arg, ctx=ast.Load()), attr=m.name, ctx=ast.Load()),
                                        args=[ast.Name(id=x.arg, ctx=ast.Load()) for x in a.args[1:]], keywords=[])
                        fd = ast.FunctionDef(name=t.id, args=args, body=[ast.Return(value=call)], decorator_list=[], returns=copy.deepcopy(m.returns), type_comment=None)
                        if hasattr(m, "type_params"):
                            fd.type_params = []
                        new_body.append(ast.copy_location(fd, st))
                    continue
            new_body.append(st)
        cls.body = new_body
    ast.fix_missing_locations(tree)


def _unroll_literal_loops(tree: ast.AST) -> None:
    """for name, element in (("HTMLBlock", CustomHTMLBlock), ("FencedCode", CustomFencedCode)): self.block_elements[name] = element
       ->   self.block_elements["HTMLBlock"] = CustomHTMLBlock; self.block_elements["FencedCode"] = CustomFencedCode
    A `for` over a short literal tuple / list of constants and plain names (or equal-length tuples of them) whose body is at
    most three straight-line statements that only read the loop variables is the body written out row by row."""
    import copy

    def simple(e: ast.AST) -> bool:
        if isinstance(e, (ast.Constant, ast.Name)) or (isinstance(e, ast.Attribute) and simple(e.value)):
            return True
        # a row may carry a tuple of option strings and a dict of keywords that the body unpacks with * / **
        if isinstance(e, (ast.Tuple, ast.List)):
            return all(simple(x) for x in e.elts)
        if isinstance(e, ast.Dict):
            return all(isinstance(k, ast.Constant) and isinstance(k.value, str) and k.value.isidentifier() for k in e.keys) and all(simple(v) for v in e.values)
        return False

    # module-level tables: NAME = [row, row, ...] bound once at module level
    tables: dict[str, ast.AST] = {}
    counts: dict[str, int] = {}
    if isinstance(tree, ast.Module):
        for st0 in tree.body:
            tg0 = st0.targets[0] if isinstance(st0, ast.Assign) and len(st0.targets) == 1 else (st0.target if isinstance(st0, ast.AnnAssign) and st0.value is not None else None)
            if isinstance(tg0, ast.Name):
                counts[tg0.id] = counts.get(tg0.id, 0) + 1
                if isinstance(st0.value, (ast.Tuple, ast.List)):
                    tables[tg0.id] = st0.value

    def expand_stars(stmt: ast.stmt) -> None:
        """f(*("-o", "--output"), **{"type": str})  ->  f("-o", "--output", type=str)"""
        for c in ast.walk(stmt):
            if isinstance(c, ast.Call):
                new_args: list[ast.expr] = []
                for a in c.args:
                    if isinstance(a, ast.Starred) and isinstance(a.value, (ast.Tuple, ast.List)):
                        new_args.extend(a.value.elts)
                    else:
                        new_args.append(a)
                c.args = new_args
                new_kw: list[ast.keyword] = []
                for k in c.keywords:
                    if k.arg is None and isinstance(k.value, ast.Dict) and all(isinstance(x, ast.Constant) and isinstance(x.value, str) for x in k.value.keys):
                        new_kw.extend(ast.keyword(arg=x.value, value=v) for x, v in zip(k.value.keys, k.value.values))
                    else:
                        new_kw.append(k)
                c.keywords = new_kw

    for fn in [n for n in ast.walk(tree) if isinstance(n, (ast.FunctionDef, ast.AsyncFunctionDef))]:
        local_stores = {x.id for x in ast.walk(fn) if isinstance(x, ast.Name) and isinstance(x.ctx, (ast.Store, ast.Del))}
        for loop in [x for x in ast.walk(fn) if isinstance(x, ast.For)]:
            if isinstance(loop.iter, ast.Name) and loop.iter.id in tables and counts.get(loop.iter.id) == 1 and loop.iter.id not in local_stores \
                    and len(tables[loop.iter.id].elts) <= 24 and any(isinstance(y, ast.Starred) or (isinstance(y, ast.keyword) and y.arg is None) for b in loop.body for y in ast.walk(b)):
                # (only tables whose rows are unpacked with * / ** in the body: those declarations are otherwise invisible)
                loop.iter = copy.deepcopy(tables[loop.iter.id])
        for holder in ast.walk(fn):
            for fld in ("body", "orelse", "finalbody"):
                lst = getattr(holder, fld, None)
                if not (isinstance(lst, list) and lst and isinstance(lst[0], ast.stmt)):
                    continue
                for st in list(lst):
                    if not (isinstance(st, ast.For) and not st.orelse and isinstance(st.iter, (ast.Tuple, ast.List)) and 1 <= len(st.iter.elts) <= 24):
                        continue
                    tnames = [st.target.id] if isinstance(st.target, ast.Name) else (
                        [e.id for e in st.target.elts] if isinstance(st.target, (ast.Tuple, ast.List)) and all(isinstance(e, ast.Name) for e in st.target.elts) else None)
                    if not tnames:
                        continue
                    rows = []
                    for e in st.iter.elts:
                        if isinstance(st.target, ast.Name):
                            rows.append([e] if simple(e) else None)
                        else:
                            rows.append(list(e.elts) if isinstance(e, (ast.Tuple, ast.List)) and len(e.elts) == len(tnames) and all(simple(x) for x in e.elts) else None)
                    if any(r is None for r in rows) or all(all(isinstance(x, ast.Constant) for x in r) for r in rows):
                        continue  # (rows of constants only are left to the rules that read such tables)
                    if len(st.body) > 3 or not all(isinstance(b, (ast.Assign, ast.AugAssign, ast.Expr)) for b in st.body):
                        continue
                    bad = False
                    row_names = {x.id for r in rows for e in r for x in ast.walk(e) if isinstance(x, ast.Name)}
                    for b in st.body:
                        for x in ast.walk(b):
                            if isinstance(x, ast.Name) and isinstance(x.ctx, (ast.Store, ast.Del)) and (x.id in tnames or x.id in row_names):
                                bad = True
                            if isinstance(x, (ast.Lambda, ast.ListComp, ast.SetComp, ast.DictComp, ast.GeneratorExp, ast.NamedExpr, ast.Yield, ast.YieldFrom, ast.Await)):
                                bad = True
                    # the loop variables are not read outside the loop
                    inside = {id(x) for x in ast.walk(st)}
                    for x in ast.walk(fn):
                        if isinstance(x, ast.Name) and x.id in tnames and id(x) not in inside:
                            bad = True
                    if bad:
                        continue
                    out: list[ast.stmt] = []
                    for r in rows:
                        env = dict(zip(tnames, r))

                        class _Sub(ast.NodeTransformer):
                            def visit_Name(self, n):
                                return ast.copy_location(copy.deepcopy(env[n.id]), n) if n.id in env and isinstance(n.ctx, ast.Load) else n

                        for b in st.body:
                            nb = ast.copy_location(_Sub().visit(copy.deepcopy(b)), b)
                            expand_stars(nb)
                            out.append(nb)
                    i = lst.index(st)
                    lst[i:i + 1] = out
    ast.fix_missing_locations(tree)


def _drop_local_annotations(tree: ast.AST) -> None:
    """Inside function bodies `x: T = v` is read as `x = v` (a local annotation has no effect at run time; class bodies and
    module level keep theirs - dataclass fields and typed constants are facts the rules use)."""
    class _T(ast.NodeTransformer):
        def __init__(self) -> None:
            self.depth = 0

        def _fn(self, node):
            self.depth += 1
            self.generic_visit(node)
            self.depth -= 1
            return node

        visit_FunctionDef = visit_AsyncFunctionDef = _fn

        def visit_ClassDef(self, node):
            d, self.depth = self.depth, 0
            self.generic_visit(node)
            self.depth = d
            return node

        def visit_AnnAssign(self, node: ast.AnnAssign):
            if self.depth > 0 and node.value is not None:
                return ast.copy_location(ast.Assign(targets=[node.target], value=node.value, type_comment=None), node)
            return node

    _T().visit(tree)
    ast.fix_missing_locations(tree)


def set_parents(tree: ast.AST) -> None:
    for node in ast.walk(tree):
        for child in ast.iter_child_nodes(node):
            child._parent = node  # type: ignore[attr-defined]
    tree._parent = None  # type: ignore[attr-defined]


def parent(node: ast.AST) -> ast.AST | None:
    return getattr(node, "_parent", None)


def collect_imports(stmts: list[ast.stmt], modname: str, is_pkg: bool = False) -> dict[str, ImportRef]:
    """Imports made directly by the given statement list (incl. inside if/try at that level)."""
    out: dict[str, ImportRef] = {}

    def visit(body: list[ast.stmt]) -> None:
        for st in body:
            if isinstance(st, ast.Import):
                for al in st.names:
                    if al.asname:
                        out[al.asname] = ImportRef("mod", al.name)
                    else:
                        top = al.name.split(".")[0]
                        out[top] = ImportRef("mod", top)
            elif isinstance(st, ast.ImportFrom):
                base = st.module or ""
                if st.level:
                    parts = modname.split(".")
                    if not is_pkg:
                        parts = parts[:-1]
                    parts = parts[: len(parts) - (st.level - 1)]
                    base = ".".join(parts + ([st.module] if st.module else []))
                for al in st.names:
                    out[al.asname or al.name] = ImportRef("sym", base, al.name)
            elif isinstance(st, (ast.If, ast.Try)):
                for sub in ("body", "orelse", "finalbody"):
                    visit(getattr(st, sub, []) or [])
                for h in getattr(st, "handlers", []) or []:
                    visit(h.body)

    visit(stmts)
    return out


class Repo:
    """All modules of the flowmark package in the current working tree."""

    def __init__(self, root: Path | None = None, trees: dict | None = None) -> None:
        self.root = root or repo_root()
        self.pkg_dir = self.root / "src" / "flowmark"
        if not self.pkg_dir.is_dir():
            raise AnalysisError(f"package directory not found: {self.pkg_dir}")
        self.modules: dict[str, Module] = {}
        self.functions: dict[str, FuncInfo] = {}
        self.classes: dict[str, ClassInfo] = {}
        self.func_of_node: dict[ast.AST, FuncInfo] = {}
        self.class_of_node: dict[ast.AST, ClassInfo] = {}
        self.is_inlined_view = trees is not None
        if trees is not None:
            # a view built from already parsed (and transformed) module trees
            for name, (path, source, tree) in trees.items():
                set_parents(tree)
                mod = Module(name=name, path=path, source=source, tree=tree)
                mod.imports = collect_imports(tree.body, name, path.name == "__init__.py")
                self.modules[name] = mod
            for mod in self.modules.values():
                self._index_module(mod)
        else:
            self._load()

    # ------------------------------------------------------------------ loading
    def _load(self) -> None:
        for path in sorted(self.pkg_dir.rglob("*.py")):
            rel = path.relative_to(self.pkg_dir.parent).with_suffix("")
            parts = list(rel.parts)
            is_pkg = parts[-1] == "__init__"
            if is_pkg:
                parts = parts[:-1]
            name = ".".join(parts)
            try:
                src = path.read_text(encoding="utf-8")
                tree = ast.parse(src, filename=str(path))
            except (SyntaxError, UnicodeDecodeError, OSError) as e:
                raise AnalysisError(f"cannot parse {path}: {e}") from e
            _drop_local_annotations(tree)
            _desugar_match(tree)
            _hoist_walrus(tree)
            _unalias_bound_methods(tree)
            _desugar_functional(tree)
            _fold_self_assign(tree)
            _expand_method_aliases(tree)
            _unroll_literal_loops(tree)
            set_parents(tree)
            mod = Module(name=name, path=path, source=src, tree=tree)
            mod.imports = collect_imports(tree.body, name, is_pkg)
            self.modules[name] = mod
        for mod in self.modules.values():
            self._index_module(mod)

    def _index_module(self, mod: Module) -> None:
        def add_func(node, qual_prefix: str, cls: ClassInfo | None, parent_f: FuncInfo | None) -> FuncInfo:
            name = node.name if not isinstance(node, ast.Lambda) else f"<lambda@{node.lineno}>"
            qual = f"{mod.name}:{qual_prefix}{name}"
            fi = FuncInfo(qual=qual, name=name, node=node, module=mod, cls=cls, parent=parent_f)
            self.functions[qual] = fi
            self.func_of_node[node] = fi
            if not isinstance(node, ast.Lambda):
                fi.local_imports = collect_imports(node.body, mod.name)
                walk_body(node.body, f"{qual_prefix}{name}.<locals>.", None, fi)
            return fi

        def add_class(node: ast.ClassDef, qual_prefix: str, parent_f: FuncInfo | None) -> ClassInfo:
            qual = f"{mod.name}:{qual_prefix}{node.name}"
            ci = ClassInfo(qual=qual, name=node.name, node=node, module=mod, parent_func=parent_f)
            self.classes[qual] = ci
            self.class_of_node[node] = ci
            for st in node.body:
                if isinstance(st, (ast.FunctionDef, ast.AsyncFunctionDef)):
                    ci.methods[st.name] = add_func(st, f"{qual_prefix}{node.name}.", ci, parent_f)
                elif isinstance(st, ast.Assign):
                    for t in st.targets:
                        if isinstance(t, ast.Name):
                            ci.class_attrs[t.id] = st.value
                elif isinstance(st, ast.AnnAssign) and isinstance(st.target, ast.Name):
                    ci.class_attrs[st.target.id] = st.value if st.value is not None else st.annotation
                elif isinstance(st, ast.ClassDef):
                    add_class(st, f"{qual_prefix}{node.name}.", parent_f)
            return ci

        def walk_body(body: list[ast.stmt], qual_prefix: str, cls: ClassInfo | None, parent_f: FuncInfo | None) -> None:
            """Index defs nested anywhere in these statements (not crossing def/class)."""
            stack: list[ast.AST] = list(body)
            while stack:
                st = stack.pop(0)
                if isinstance(st, (ast.FunctionDef, ast.AsyncFunctionDef)):
                    fi = add_func(st, qual_prefix, cls, parent_f)
                    if parent_f is not None:
                        parent_f.local_defs[st.name] = fi
                    elif cls is None:
                        mod.defs[st.name] = fi
                elif isinstance(st, ast.ClassDef):
                    ci = add_class(st, qual_prefix, parent_f)
                    if parent_f is not None:
                        parent_f.local_defs[st.name] = ci
                    else:
                        mod.defs[st.name] = ci
                elif isinstance(st, ast.Lambda):
                    add_func(st, qual_prefix, cls, parent_f)
                else:
                    stack[0:0] = list(ast.iter_child_nodes(st))

        walk_body(mod.tree.body, "", None, None)
        # module-level constants
        for st in mod.tree.body:
            targets: list[ast.expr] = []
            if isinstance(st, ast.Assign):
                targets = st.targets
            elif isinstance(st, ast.AnnAssign):
                targets = [st.target]
            for t in targets:
                for n in ast.walk(t):
                    if isinstance(n, ast.Name) and isinstance(n.ctx, ast.Store):
                        prev = mod.defs.get(n.id)
                        if isinstance(prev, ConstInfo):
                            prev.assigns.append(st)
                        elif prev is None:
                            mod.defs[n.id] = ConstInfo(f"{mod.name}:{n.id}", n.id, mod, [st])

    # --------------------------------------------------------------- accessors
    def module(self, name: str) -> Module:
        try:
            return self.modules[name]
        except KeyError:
            raise AnalysisError(f"anchor vanished: module {name}") from None

    def func(self, qual: str) -> FuncInfo:
        # functions a rule asks for by name are its anchors; the inlined view keeps them as functions
        self.__dict__.setdefault("requested", set()).add(qual)
        try:
            return self.functions[qual]
        except KeyError:
            moved = self._moved(qual, self.functions)
            if moved is not None:
                self.__dict__.setdefault("requested", set()).add(moved.qual)
                return moved
            raise AnalysisError(f"anchor vanished: function {qual}") from None

    def cls(self, qual: str) -> ClassInfo:
        try:
            return self.classes[qual]
        except KeyError:
            moved = self._moved(qual, self.classes)
            if moved is not None:
                return moved
            raise AnalysisError(f"anchor vanished: class {qual}") from None

    def _moved(self, qual: str, table: dict):
        """A module-level function / class that is no longer where a rule expects it but exists, under the same name,
        in exactly one other module of the package (moved during a reorganisation, usually imported back) - or is imported
        into the expected module under that name (possibly renamed at its new home)."""
        mod, _, name = qual.partition(":")
        if "." in name or "<locals>" in name:
            return None
        m = self.modules.get(mod)
        if m is not None and name in m.imports:
            r = self._follow_import(m.imports[name])
            if isinstance(r, (FuncInfo, ClassInfo)) and r.qual in table:
                return r
        hits = [v for q, v in table.items() if q.partition(":")[2] == name]
        return hits[0] if len(hits) == 1 else None

    def find_func(self, name: str, module: str | None = None) -> FuncInfo:
        """Find a module-level function by its public name (following re-exports is not needed)."""
        cands = [
            f
            for f in self.functions.values()
            if f.name == name and f.cls is None and f.parent is None and (module is None or f.module.name == module)
        ]
        if len(cands) != 1:
            raise AnalysisError(f"anchor vanished or ambiguous: function {name} ({len(cands)} candidates)")
        return cands[0]

    def enclosing_func(self, node: ast.AST) -> FuncInfo | None:
        p = parent(node)
        while p is not None:
            if p in self.func_of_node:
                return self.func_of_node[p]
            p = parent(p)
        return None

    def enclosing_class(self, node: ast.AST) -> ClassInfo | None:
        p = parent(node)
        while p is not None:
            if isinstance(p, ast.ClassDef):
                return self.class_of_node.get(p)
            if isinstance(p, (ast.FunctionDef, ast.AsyncFunctionDef, ast.Lambda)):
                # keep climbing: methods sit inside classes
                pass
            p = parent(p)
        return None

    # -------------------------------------------------------------- resolution
    def lookup(self, name: str, mod: Module, func: FuncInfo | None):
        """Resolve a bare name in scope -> FuncInfo | ClassInfo | ConstInfo | ImportRef | None."""
        f = func
        while f is not None:
            if name in f.local_defs:
                return f.local_defs[name]
            if name in f.local_imports:
                return self._follow_import(f.local_imports[name])
            f = f.parent
        if name in mod.defs:
            return mod.defs[name]
        if name in mod.imports:
            return self._follow_import(mod.imports[name])
        return None

    def _follow_import(self, ref: ImportRef, depth: int = 0):
        """Follow an import into the repo if it points there, else return the ImportRef."""
        if depth > 8:
            return ref
        if ref.kind == "mod":
            return ref
        target_mod = self.modules.get(ref.module)
        if target_mod is None:
            # maybe "from flowmark.linewrapping import tag_handling"
            return ref
        sym = ref.symbol or ""
        if sym in target_mod.defs:
            return target_mod.defs[sym]
        if sym in target_mod.imports:
            return self._follow_import(target_mod.imports[sym], depth + 1)
        if f"{ref.module}.{sym}" in self.modules:
            return ImportRef("mod", f"{ref.module}.{sym}")
        return ref

    def resolve_expr(self, expr: ast.expr, mod: Module, func: FuncInfo | None):
        """Resolve Name / dotted Attribute to a definition or an external dotted string.

        Returns FuncInfo | ClassInfo | ConstInfo | str (external dotted name) | None.
        """
        if isinstance(expr, ast.Name):
            r = self.lookup(expr.id, mod, func)
            if isinstance(r, ImportRef):
                return r.dotted()
            return r
        if isinstance(expr, ast.Attribute):
            base = self.resolve_expr(expr.value, mod, func)
            if isinstance(base, str):
                dotted = f"{base}.{expr.attr}"
                # a repo module referenced through a package attribute
                if base in self.modules and expr.attr in self.modules[base].defs:
                    return self.modules[base].defs[expr.attr]
                return dotted
            if isinstance(base, ClassInfo):
                if expr.attr in base.methods:
                    return base.methods[expr.attr]
                return None
            return None
        return None

    def dotted_name(self, expr: ast.expr, mod: Module, func: FuncInfo | None) -> str | None:
        """Best-effort canonical dotted name of an expression (repo quals or external)."""
        r = self.resolve_expr(expr, mod, func)
        if isinstance(r, str):
            return r
        if isinstance(r, (FuncInfo, ClassInfo, ConstInfo)):
            return r.qual
        return None

    # --------------------------------------------------------------- class MRO
    def class_bases(self, ci: ClassInfo) -> list["ClassInfo | str"]:
        out: list[ClassInfo | str] = []
        for b in ci.base_exprs:
            r = self.resolve_expr(b, ci.module, ci.parent_func)
            if isinstance(r, ClassInfo):
                out.append(r)
            elif isinstance(r, str):
                out.append(r)
            else:
                out.append(ast.unparse(b))
        return out

    def find_method(self, ci: ClassInfo, name: str) -> FuncInfo | None:
        """Look a method up through repo base classes (external bases are not searched)."""
        seen: set[str] = set()
        stack: list[ClassInfo] = [ci]
        while stack:
            c = stack.pop(0)
            if c.qual in seen:
                continue
            seen.add(c.qual)
            if name in c.methods:
                return c.methods[name]
            for b in self.class_bases(c):
                if isinstance(b, ClassInfo):
                    stack.append(b)
        return None

    def external_bases(self, ci: ClassInfo) -> list[str]:
        out: list[str] = []
        seen: set[str] = set()
        stack: list[ClassInfo] = [ci]
        while stack:
            c = stack.pop(0)
            if c.qual in seen:
                continue
            seen.add(c.qual)
            for b in self.class_bases(c):
                if isinstance(b, ClassInfo):
                    stack.append(b)
                else:
                    out.append(b)
        return out

    def subclasses_of(self, ci: ClassInfo) -> list[ClassInfo]:
        out = []
        for c in self.classes.values():
            if c is ci:
                continue
            seen: set[str] = set()
            stack = [c]
            while stack:
                x = stack.pop()
                if x.qual in seen:
                    continue
                seen.add(x.qual)
                for b in self.class_bases(x):
                    if b is ci:
                        out.append(c)
                        stack = []
                        break
                    if isinstance(b, ClassInfo):
                        stack.append(b)
        return out


def node_key(mod: Module, func: FuncInfo | None, node: ast.AST | None = None) -> str:
    """Line-free construct key: module:qualname[ :: normalised statement text]."""
    base = func.qual if func is not None else mod.name
    if node is None:
        return base
    try:
        txt = ast.unparse(node)
    except Exception:  # pragma: no cover
        txt = type(node).__name__
    txt = " ".join(txt.split())
    if len(txt) > 160:
        txt = txt[:157] + "..."
    return f"{base} :: {txt}"


def loc(mod: Module, node: ast.AST) -> str:
    try:
        rel = mod.path.relative_to(repo_root())
    except ValueError:
        rel = mod.path
    return f"{rel}:{getattr(node, 'lineno', 0)}"
