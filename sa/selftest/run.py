"""Run the self-test variants against the checks on scratch copies of the current tree.

    python -m sa.selftest.run [--props C01,C05] [--jobs 16] [--json out.json]

Scratch copies live under a fresh mkdtemp and are removed as soon as the variant has been checked.
A mutant counts as *detected* when the named check exits 1 with a VIOLATION whose text contains the expected
rule; a benign refactor counts as *silent* when every check exits exactly as it does on the unmodified copy.
"""

from __future__ import annotations

import ast
import json
import os
import shutil
import subprocess
import sys
import tempfile
from concurrent.futures import ThreadPoolExecutor
from pathlib import Path

from ..loader import repo_root
from .variants import BENIGN, MUTANTS, B, M

VERIF = Path(__file__).resolve().parent.parent.parent
ALL_PROPS = [f"C{i:02d}" for i in range(1, 19) if i != 2]


def _copy_tree(tmp: str) -> None:
    shutil.copytree(repo_root() / "src", os.path.join(tmp, "src"))


def _run_check(prop: str, root: str) -> tuple[int, str]:
    env = dict(os.environ, FLOWMARK_REPO=root, VERIF_NO_EVIDENCE="1", VERIF_TIER="quick")
    env.pop("VERIF_VERBOSE", None)
    r = subprocess.run([str(VERIF / "check"), prop], env=env, capture_output=True, text=True)
    return r.returncode, r.stdout


def _apply(tmp: str, rel: str, old: str, new: str, count: int) -> bool:
    p = os.path.join(tmp, "src", "flowmark", rel)
    try:
        s = open(p, encoding="utf-8").read()
    except OSError:
        return False
    if old not in s:
        return False
    s = s.replace(old, new, count)
    try:
        ast.parse(s)
    except SyntaxError:
        return False
    open(p, "w", encoding="utf-8").write(s)
    return True


def run_mutant(m: M, props: list[str] | None) -> dict:
    tmp = tempfile.mkdtemp(prefix="fm_selftest_")
    try:
        _copy_tree(tmp)
        if not _apply(tmp, m.rel, m.old, m.new, m.count):
            return {"id": m.id, "status": "skipped", "why": "anchor text not present in the current tree"}
        res = {}
        for prop in m.props:
            if props and prop not in props:
                continue
            rc, out = _run_check(prop, tmp)
            hit = rc == 1 and any("VIOLATION" in l for l in out.splitlines()) and (not m.rule or m.rule in out)
            res[prop] = {"rc": rc, "detected": hit}
        if not res:
            return {"id": m.id, "status": "skipped", "why": "no selected property"}
        return {"id": m.id, "status": "detected" if all(v["detected"] for v in res.values()) else "MISSED", "checks": res}
    finally:
        shutil.rmtree(tmp, ignore_errors=True)


def seeded_variants() -> list[tuple[str, str, str]]:
    """(id, target property, patch path) of the independently produced changes kept under /verif/seeded that the
    target property's check is expected to report (meta.json: caught_by_target_property_check)."""
    out = []
    root = VERIF / "seeded"
    if not root.is_dir():
        return out
    for d in sorted(root.iterdir()):
        meta = d / "meta.json"
        if not meta.exists():
            continue
        try:
            m = json.loads(meta.read_text())
        except ValueError:
            continue
        if m.get("caught_by_target_property_check"):
            out.append((m["id"], m["breaks_property"], str(d / "patch.diff")))
    return out


def run_seeded(sid: str, prop: str, patch: str) -> dict:
    tmp = tempfile.mkdtemp(prefix="fm_selftest_")
    try:
        _copy_tree(tmp)
        r = subprocess.run(["patch", "-p1", "-s", "-f", "-d", tmp, "-i", patch], capture_output=True, text=True)
        if r.returncode != 0:
            return {"id": "seeded:" + sid, "status": "skipped", "why": "patch does not apply to the current tree"}
        rc, out = _run_check(prop, tmp)
        hit = rc == 1 and "VIOLATION" in out
        return {"id": "seeded:" + sid, "status": "detected" if hit else "MISSED", "checks": {prop: {"rc": rc, "detected": hit}}}
    finally:
        shutil.rmtree(tmp, ignore_errors=True)


def run_benign(b: B, props: list[str], baseline: dict[str, int]) -> dict:
    tmp = tempfile.mkdtemp(prefix="fm_selftest_")
    try:
        _copy_tree(tmp)
        if not _apply(tmp, b.rel, b.old, b.new, b.count):
            return {"id": b.id, "status": "skipped", "why": "anchor text not present in the current tree"}
        bad = {}
        for prop in props:
            rc, out = _run_check(prop, tmp)
            if rc != baseline.get(prop, 0):
                bad[prop] = {"rc": rc, "tail": out.splitlines()[-6:]}
        return {"id": b.id, "status": "silent" if not bad else "ALARM", "checks": bad}
    finally:
        shutil.rmtree(tmp, ignore_errors=True)


def benign_patches() -> list[tuple[str, str]]:
    """(id, patch path) of the behaviour-preserving refactors produced by independent sub-agents (seeded/benign/*)."""
    root = VERIF / "seeded" / "benign"
    if not root.is_dir():
        return []
    return [(d.name, str(d / "patch.diff")) for d in sorted(root.iterdir()) if (d / "patch.diff").exists()]


def run_benign_patch(bid: str, patch: str, props: list[str], baseline: dict[str, int]) -> dict:
    tmp = tempfile.mkdtemp(prefix="fm_selftest_")
    try:
        _copy_tree(tmp)
        r = subprocess.run(["patch", "-p1", "-s", "-f", "-d", tmp, "-i", patch], capture_output=True, text=True)
        if r.returncode != 0:
            return {"id": "refactor:" + bid, "status": "skipped", "why": "patch does not apply to the current tree"}
        bad = {}
        for prop in props:
            rc, out = _run_check(prop, tmp)
            if rc != baseline.get(prop, 0):
                bad[prop] = {"rc": rc, "tail": out.splitlines()[-6:]}
        return {"id": "refactor:" + bid, "status": "silent" if not bad else "ALARM", "checks": bad}
    finally:
        shutil.rmtree(tmp, ignore_errors=True)


MECHANICAL = (("rename-privates", "rename_privates.py"), ("rename-locals", "rename_locals.py"))


def run_mechanical(mid: str, tool: str, props: list[str], baseline: dict[str, int]) -> dict:
    """Whole-package mechanical renamings (every private name / every local variable): behaviour-preserving by
    construction; every check must give the verdict it gives on the unrenamed tree."""
    tmp = tempfile.mkdtemp(prefix="fm_selftest_")
    try:
        _copy_tree(tmp)
        r = subprocess.run([sys.executable, str(VERIF / "tools" / tool), tmp], capture_output=True, text=True)
        if r.returncode != 0:
            return {"id": "mechanical:" + mid, "status": "skipped", "why": (r.stderr or r.stdout)[-200:]}
        bad = {}
        for prop in props:
            rc, out = _run_check(prop, tmp)
            if rc != baseline.get(prop, 0):
                bad[prop] = {"rc": rc, "tail": out.splitlines()[-6:]}
        return {"id": "mechanical:" + mid, "status": "silent" if not bad else "ALARM", "checks": bad}
    finally:
        shutil.rmtree(tmp, ignore_errors=True)


def selftest(props: list[str] | None = None, jobs: int = 16) -> dict:
    sel = props or ALL_PROPS
    tmp = tempfile.mkdtemp(prefix="fm_selftest_base_")
    try:
        _copy_tree(tmp)
        baseline = {p: _run_check(p, tmp)[0] for p in sel}
    finally:
        shutil.rmtree(tmp, ignore_errors=True)
    muts = [m for m in MUTANTS if not props or set(m.props) & set(props)]
    with ThreadPoolExecutor(max_workers=jobs) as ex:
        mres = list(ex.map(lambda m: run_mutant(m, props), muts))
        seeds = [x for x in seeded_variants() if not props or x[1] in props]
        mres += list(ex.map(lambda x: run_seeded(*x), seeds))
        bres = list(ex.map(lambda b: run_benign(b, sel, baseline), BENIGN))
        bres += list(ex.map(lambda x: run_benign_patch(x[0], x[1], sel, baseline), benign_patches()))
        bres += list(ex.map(lambda x: run_mechanical(x[0], x[1], sel, baseline), MECHANICAL))
    return {
        "baseline_rc": baseline,
        "mutants": {"run": sum(1 for r in mres if r["status"] != "skipped"), "detected": sum(1 for r in mres if r["status"] == "detected"),
                    "missed": [r for r in mres if r["status"] == "MISSED"], "skipped": [r["id"] for r in mres if r["status"] == "skipped"]},
        "benign": {"run": sum(1 for r in bres if r["status"] != "skipped"), "silent": sum(1 for r in bres if r["status"] == "silent"),
                   "alarms": [r for r in bres if r["status"] == "ALARM"], "skipped": [r["id"] for r in bres if r["status"] == "skipped"]},
    }


def main(argv: list[str]) -> int:
    props = None
    jobs = 16
    out = None
    for i, a in enumerate(argv):
        if a == "--props":
            props = argv[i + 1].split(",")
        if a == "--jobs":
            jobs = int(argv[i + 1])
        if a == "--json":
            out = argv[i + 1]
    res = selftest(props, jobs)
    print(json.dumps({k: (v if k == "baseline_rc" else {kk: (vv if not isinstance(vv, list) or kk in ("missed", "alarms", "skipped") else vv) for kk, vv in v.items()})
                      for k, v in res.items()}, indent=1)[:6000])
    if out:
        json.dump(res, open(out, "w"), indent=1)
    ok = not res["mutants"]["missed"] and not res["benign"]["alarms"]
    return 0 if ok else 1


if __name__ == "__main__":
    sys.exit(main(sys.argv[1:]))
