"""Self-test variants: single-edit mutants that must make a named check fire, and behaviour-preserving
refactors that must leave every check silent. Each variant is a text replacement on a scratch copy of the
*current* working tree (anchors that no longer exist are skipped, never counted as a pass or a failure).

M(id, props, relpath under src/flowmark, old, new, rule-substring expected in the report)
B(id, relpath, old, new)
"""

from __future__ import annotations

from dataclasses import dataclass


@dataclass
class M:
    id: str
    props: tuple[str, ...]
    rel: str
    old: str
    new: str
    rule: str = ""
    count: int = 1


@dataclass
class B:
    id: str
    rel: str
    old: str
    new: str
    count: int = 1


FM = "formats/flowmark_markdown.py"
TW = "linewrapping/text_wrapping.py"
LW = "linewrapping/line_wrappers.py"
TH = "linewrapping/tag_handling.py"
AP = "linewrapping/atomic_patterns.py"
MF = "linewrapping/markdown_filling.py"
RA = "reformat_api.py"
DT = "transforms/doc_transforms.py"
DC = "transforms/doc_cleanups.py"
SQ = "typography/smartquotes.py"
EL = "typography/ellipses.py"
RS = "file_resolver/resolver.py"

MUTANTS: list[M] = [
    # ---- C15 / C14 / C16 option threading, sinks, writes, config
    M("optflow-drop-kw-stdin", ("C15",), RA, "            ellipses=ellipses,\n            make_parents=make_parents,\n            list_spacing=list_spacing,\n        )\n        return",
      "            make_parents=make_parents,\n            list_spacing=list_spacing,\n        )\n        return", "R-OPTFLOW"),
    M("optflow-swap-positional", ("C15",), RA, "text, width, plaintext, semantic, cleanups, smartquotes, ellipses, list_spacing",
      "text, width, plaintext, semantic, cleanups, ellipses, smartquotes, list_spacing", "R-OPTFLOW"),
    M("auto-set-missing", ("C15",), "cli.py", "        opts.ellipses = True\n", "", "R-AUTO"),
    M("sink-rstrip", ("C15",), RA, "sys.stdout.write(result)", "sys.stdout.write(result.rstrip() + '\\n')", "R-SINK"),
    M("consumer-unguarded", ("C15", "C10"), MF, "    if cleanups:\n        doc_cleanups(document)", "    doc_cleanups(document)", "R-CONSUMER"),
    M("semantic-swapped", ("C15", "C11"), MF, "        if semantic:\n            line_wrapper = line_wrap_by_sentence", "        if not semantic:\n            line_wrapper = line_wrap_by_sentence", "R-CONSUMER"),
    M("write-direct", ("C14",), RA, "            with atomic_output_file(output, make_parents=make_parents) as tmp_path:\n                tmp_path.write_text(result)",
      "            Path(output).write_text(result)", "R-WRITE-W1"),
    M("write-backup-inverted", ("C14",), RA, 'backup_suffix = ".orig" if not nobackup else ""', 'backup_suffix = ".orig" if nobackup else ""', "R-WRITE-W4"),
    M("write-touch-before-format", ("C14",), RA, "    result = reformat_text(\n        text, width", "    if inplace:\n        open(path, \"a\").close()\n    result = reformat_text(\n        text, width", "R-WRITE-W1"),
    M("write-inplace-guard-dropped", ("C14",), RA, "    if inplace:\n        backup_suffix", "    if inplace or not output:\n        backup_suffix", "R-WRITE-W3"),
    M("usage-precheck-removed", ("C14", "C15"), RA, "    if inplace and \"-\" in files:\n", "    if False:\n", "R-USAGE"),
    M("main-valueerror-exit0", ("C15",), "cli.py", "        print(f\"Error: {e}\", file=sys.stderr)\n        return 1\n    except Exception", "        print(f\"Error: {e}\", file=sys.stderr)\n        return 0\n    except Exception", "R-USAGE"),
    M("tracked-flag-removed", ("C16",), "cli.py", '        "semantic": "semantic",\n', "", "R-CONFIG-K2"),
    M("auto-locked-missing", ("C16",), "config.py", '"ellipses", "inplace"', '"inplace"', "R-CONFIG-K4"),
    M("merge-guard-weakened", ("C16",), "config.py", "        if cfg_field.name in explicit_flags:", '        if cfg_field.name in explicit_flags and cfg_field.name != "width":', "R-CONFIG-K6"),
    M("merge-none-guard-removed", ("C16",), "config.py", "        if cfg_value is None:\n            continue  # Not set in config\n", "", "R-CONFIG-K6"),
    M("config-order", ("C16",), "config.py", '[".flowmark.toml", "flowmark.toml", "pyproject.toml"]', '["flowmark.toml", ".flowmark.toml", "pyproject.toml"]', "R-CONFIG-K5"),
    M("sentinel-short-dropped", ("C16",), "cli.py", 'sentinel_parser.add_argument("-w", "--width", type=int, default=_SENTINEL)', 'sentinel_parser.add_argument("--width", type=int, default=_SENTINEL)', "R-CONFIG-K3"),
    # ---- C13 isolation
    M("cache-factory", ("C13",), FM, "def flowmark_markdown(", "from functools import cache\n\n\n@cache\ndef flowmark_markdown(", "R-PURE-S"),
    M("module-level-markdown", ("C13",), MF, "def split_sentences_no_min_length", "_MD = flowmark_markdown()\n\n\ndef split_sentences_no_min_length", "R-PURE-S5"),
    M("state-on-cached-splitter", ("C13",), TW, "        construct_map, text_with_placeholders = _extract_atomic_constructs(text)",
      "        construct_map, text_with_placeholders = _extract_atomic_constructs(text)\n        self.last_map = construct_map", "R-PURE-S4"),
    M("class-attr-state", ("C13",), FM, "        self._current_inline_text += text\n        return text", "        MarkdownNormalizer._last = text\n        self._current_inline_text += text\n        return text", "R-PURE-S3"),
    M("setup-done-early-return", ("C13",), FM, "            custom_parser = CustomParser()", "            if getattr(self, '_setup_done', False):\n                return\n            custom_parser = CustomParser()", "R-PURE-S5"),
    # ---- C01 / C04 renderer
    M("prefix-not-consumed-hr", ("C01",), FM, '        result = f"{self._prefix}* * *\\n"\n        self._prefix = self._second_prefix', '        result = f"{self._prefix}* * *\\n"', "R-PREFIX-P2"),
    M("prefix-not-consumed-code", ("C01",), FM, '        lines.append(f"{self._second_prefix}{fence}")\n        self._prefix = self._second_prefix', '        lines.append(f"{self._second_prefix}{fence}")', "R-PREFIX-P2"),
    M("prefix-not-restored-quote", ("C01",), FM, '            result = self.render_children(element).rstrip("\\n")\n        self._prefix = self._second_prefix\n        # After rendering a quote block',
      '            result = self.render_children(element).rstrip("\\n")\n        # After rendering a quote block', "R-PREFIX-P3"),
    M("code-lines-under-first-prefix", ("C01",), FM, '                lines.append(f"{self._second_prefix}{line}")', '                lines.append(f"{self._prefix}{line}")', "R-PREFIX-P1"),
    M("image-title-dropped", ("C01", "C04"), FM, '        title = f" {_normalize_title_quotes(element.title)}" if element.title else ""\n        return template', '        title = ""\n        return template', "R-FIELD"),
    M("cell-pipe-unescaped", ("C01", "C04"), FM, 'return self.render_children(element).replace("|", "\\\\|")', "return self.render_children(element)", "R-ENCODE-cell"),
    M("title-quotes-unescaped", ("C01", "C04"), FM, "escaped = title.strip('\"').replace('\"', '\\\\\"')", "escaped = title.strip('\"')", "R-ENCODE-title"),
    M("alignment-folded", ("C01",), FM, '                normalized_delimiter = ":---:"', '                normalized_delimiter = ":---"', "R-DECISION"),
    M("fence-off-by-one", ("C01", "C04"), FM, "return max(3, max_len + 1)", "return max(3, max_len)", "R-BOUND"),
    M("closing-fence-any-run", ("C01", "C04"), FM, "            if m and parse_info.leading in m.group(1):\n                break\n\n            prefix_len", "            if m:\n                break\n\n            prefix_len", "R-FENCE"),
    M("closing-fence-four-spaces", ("C04",), FM, 'm = re.match(r" {,3}(~+|`+)[^\\n\\S]*$", line, flags=re.M)', 'm = re.match(r" *(~+|`+)[^\\n\\S]*$", line, flags=re.M)', "R-FENCE"),
    M("lang-lowercased", ("C01", "C04"), FM, "lang = element.lang if", "lang = element.lang.lower() if", "R-ENCODE-verbatim"),
    M("list-start-ignored", ("C01",), FM, "num = i + element.start", "num = i + 1", "R-FIELD"),
    M("hard-break-as-soft", ("C01", "C03"), FM, 'return "\\n" if element.soft else "\\\\\\n"', 'return "\\n"', "R-FIELD"),
    M("render-method-deleted", ("C01",), FM, "    def render_strikethrough(self", "    def _unused_render_strikethrough(self", "R-DISPATCH"),
    M("dest-bare-again", ("C01", "C04"), FM, '        return f"[{link_text}]({_render_link_dest(element.dest)}{title})"', '        return f"[{link_text}]({element.dest}{title})"', "R-ENCODE-dest"),
    M("empty-item-marker-dropped", ("C01",), FM, "        if not element.children:\n", "        if False:\n", "R-PREFIX-P5"),
    # ---- C01 hazards / escaping
    M("escaper-plus-dropped", ("C01",), TW, 're.compile(r"^([-*+>]|#+)$")', 're.compile(r"^([-*>]|#+)$")', "R-HAZARD"),
    M("escaper-two-digits", ("C01",), TW, 're.compile(r"^[0-9]+[.)]$")', 're.compile(r"^[0-9]{1,2}[.)]$")', "R-HAZARD"),
    M("escaper-guard-narrowed", ("C01",), TW, "if is_markdown and not first_line:", "if is_markdown and not first_line and len(word) > 1:", "R-ESCAPE-SITE"),
    M("escaped-word-not-placed", ("C01",), TW, "            current_line = [escaped_word]", "            current_line = [word]", "R-ESCAPE-SITE"),
    M("is-markdown-not-threaded", ("C01",), LW, "                subsequent_offset=subsequent_indent_len,\n                is_markdown=is_markdown,", "                subsequent_offset=subsequent_indent_len,", "R-ESCAPE-SITE"),
    # ---- C08 / C09 / C10 rewrites
    M("container-has-code", ("C04", "C08", "C09"), DT, "    block.ListItem,\n    block.Paragraph,", "    block.ListItem,\n    block.FencedCode,\n    block.Paragraph,", "R-REWRITE-container"),
    M("codespan-segment-mutable", ("C04", "C08"), DT, "segments.append((element.children, None))\n    elif isinstance(element, inline.LineBreak):", "segments.append((element.children, element))\n    elif isinstance(element, inline.LineBreak):", "R-REWRITE"),
    M("quote-extra-space", ("C08",), SQ, 'return prefix + "\\u201c" + double_content', 'return prefix + "\\u201c " + double_content', "R-SUBSHAPE-quote"),
    M("quote-wrong-kind", ("C08",), SQ, 'return prefix + "\\u2018" + single_content + "\\u2019" + suffix', 'return prefix + "\\u201c" + single_content + "\\u201d" + suffix', "R-SUBSHAPE-quote"),
    M("tag-not-verbatim", ("C08",), SQ, "        segments.append(match.group(0))", "        segments.append(match.group(0).strip())", "R-SUBSHAPE-tags"),
    M("coalesce-dropped", ("C09", "C03"), MF, "rewrite_text_content(document, apply_ellipses, coalesce_lines=True)", "rewrite_text_content(document, apply_ellipses)", "R-REWRITE-coalesce"),
    M("ellipsis-extra-dot", ("C09",), EL, '        result += "…" + punct', '        result += "…" + punct.strip() + "."', "R-SUBSHAPE-ellipsis"),
    M("ellipsis-tags-unprotected", ("C09", "C04"), EL, "    tag_spans = [m.span() for m in TEMPLATE_TAG_PATTERN.finditer(text)]", "    tag_spans = []", "R-REWRITE-tags"),
    M("tight-always", ("C10",), FM, "            is_tight = self._can_be_tight(element)", "            is_tight = True", "R-DECISION-spacing"),
    M("cleanup-single-child-dropped", ("C10",), DC, "if len(element.children) == 1 and isinstance(element.children[0], inline.StrongEmphasis):", "if isinstance(element.children[0], inline.StrongEmphasis):", "R-CLEANUP"),
    M("tightness-not-restored", ("C10",), FM, "        self._current_list_tight = old_tight\n", "", "R-NONINT-spacing"),
    M("setext-alias-dropped", ("C10",), DC, "isinstance(element, (block.Heading, block.SetextHeading))", "isinstance(element, block.Heading)", "R-REWRITE-alias"),
    # ---- C03 / C07 layout, frontmatter
    M("no-strip-before-parse", ("C03",), MF, '    markdown_text = markdown_text.strip() + "\\n"\n', '    markdown_text = markdown_text + "\\n"\n', "R-LAYOUT-Y5"),
    M("sentence-nowrap-no-collapse", ("C03",), LW, 'return initial_indent + " ".join(text.split())', "return initial_indent + text.strip()", "R-LAYOUT-Y2"),
    M("decorator-order", ("C03", "C11"), LW, "        enhanced = add_tag_newline_handling(line_wrapper)\n        return _add_markdown_hard_break_handling(enhanced)\n    else:\n        return line_wrapper\n\n\ndef line_wrap_by_sentence",
      "        enhanced = _add_markdown_hard_break_handling(line_wrapper)\n        return add_tag_newline_handling(enhanced)\n    else:\n        return line_wrapper\n\n\ndef line_wrap_by_sentence", "R-LAYOUT-Y4"),
    M("dedent-before-split", ("C07",), MF, "    frontmatter, content = split_frontmatter(markdown_text)\n", "    markdown_text = dedent(markdown_text)\n    frontmatter, content = split_frontmatter(markdown_text)\n", "R-FRONTMATTER"),
    M("frontmatter-rstripped", ("C07",), "formats/frontmatter.py", 'frontmatter = "\\n".join(lines[start_idx : end_idx + 1]) + "\\n"', 'frontmatter = "\\n".join(line.rstrip() for line in lines[start_idx : end_idx + 1]) + "\\n"', "R-FRONTMATTER-verbatim"),
    M("frontmatter-splitlines", ("C07",), "formats/frontmatter.py", 'lines = text.replace("\\r\\n", "\\n").split("\\n")', "lines = text.splitlines()", "R-FRONTMATTER-verbatim"),
    # ---- C05 / C06 / C11 wrapping
    M("escaped-width-stale", ("C05",), TW, "            escaped_word_width = len_fn(escaped_word)", "            escaped_word_width = word_width", "R-ACCT"),
    M("last-line-not-flushed", ("C05",), TW, "    # Add the last line if necessary.\n    if current_line:\n        line = \" \".join(current_line)\n        if drop_whitespace:\n            line = line.strip()\n        lines.append(line)\n", "", "R-LOSSLESS-L3"),
    M("word-altered", ("C05", "C06"), TW, "            current_line.append(word)\n", '            current_line.append(word.strip("."))\n', "R-LOSSLESS-L1"),
    M("indent-every-segment", ("C05",), LW, "            cur_initial_indent = initial_indent if is_first else subsequent_indent\n            wrapped_segment", "            cur_initial_indent = initial_indent\n            wrapped_segment", "R-LOSSLESS-L8"),
    M("double-pop", ("C05", "C11"), LW, "                wrapped.pop(0)\n", "                wrapped.pop(0)\n                wrapped.pop(0) if wrapped else None\n", "R-LOSSLESS-L4"),
    M("offset-from-initial", ("C05",), TW, "        subsequent_offset=len_fn(subsequent_indent),", "        subsequent_offset=len_fn(initial_indent),", "R-ACCT"),
    M("dotall-dropped", ("C06",), AP, '    "|".join(p.pattern for p in ATOMIC_PATTERNS),\n    re.DOTALL,', '    "|".join(p.pattern for p in ATOMIC_PATTERNS),', "R-ATOMIC-table"),
    M("close-tag-not-atomic", ("C06",), AP, "    HTML_OPEN_TAG,\n    HTML_CLOSE_TAG,\n)", "    HTML_OPEN_TAG,\n)", "R-ATOMIC"),
    M("closing-fix-removed", ("C06",), TH, "        result = _fix_closing_tag_spacing(result)\n", "", "R-ATOMIC-post"),
    M("restore-skipped", ("C06", "C12", "C04"), TW, "        return _restore_atomic_constructs(tokens, construct_map)", "        return tokens if len(construct_map) > 50 else _restore_atomic_constructs(tokens, construct_map)", "R-LOSSLESS-L5"),
    M("token-appended-before-restore", ("C06", "C12", "C04"), TW, "    for token in tokens:\n        for idx, construct in construct_map.items():",
      "    for token in tokens:\n        if len(token) > 40:\n            result.append(token)\n            continue\n        for idx, construct in construct_map.items():", "R-LOSSLESS-L5"),
    M("tokens-returned-unrestored", ("C06",), TW, "    result: list[str] = []\n    for token in tokens:\n        for idx", "    if len(tokens) > 99:\n        return tokens\n    result: list[str] = []\n    for token in tokens:\n        for idx", "R-LOSSLESS-L5"),
    M("map-not-the-extracted-one", ("C06",), TW, "        return _restore_atomic_constructs(tokens, construct_map)", "        return _restore_atomic_constructs(tokens, dict(list(construct_map.items())[:64]))", "R-LOSSLESS-L5"),
    M("denormalize-skipped", ("C06",), TW, "    return denormalize_adjacent_tags(result)", "    return result", "R-LOSSLESS-L6"),
    M("merge-without-short-test", ("C11",), LW, "                and length(lines[-1]) < min_line_len\n                and length(lines[-1]) + 1", "                and length(lines[-1]) + 1", "R-SENT"),
    M("merge-when-long", ("C11",), LW, "                and length(lines[-1]) < min_line_len\n                and length(lines[-1]) + 1", "                and length(lines[-1]) > min_line_len\n                and length(lines[-1]) + 1", "R-SENT"),
    M("reads-older-line", ("C11",), LW, "            if len(lines) > 0 and length(lines[-1]) < min_line_len:\n                current_column += length(lines[-1])", "            if len(lines) > 1 and length(lines[-2]) < min_line_len:\n                current_column += length(lines[-2])", "R-SENT"),
    M("min-length-splitter", ("C11",), LW, "    return split_sentences_regex(text, min_length=0)", "    return split_sentences_regex(text)", "R-SENT-split"),
    # ---- C12 termination
    M("loop-increment-deleted", ("C12",), DT, "                    else:\n                        new_children.append(child)\n                        i += 1\n                else:", "                    else:\n                        new_children.append(child)\n                else:", "R-TERM-T1"),
    M("redos-tag-regex", ("C12",), AP, 'pattern=r"\\{%.*?%\\}",', 'pattern=r"\\{%(?:[^%]*%?)*%\\}",', "R-TERM-T3"),
    M("index-guard-dropped", ("C12",), TH, "    if line and line[0].isspace():\n        return False\n\n    stripped = line.strip()", "    if line[0].isspace():\n        return False\n\n    stripped = line.strip()", "R-TERM-index"),
    M("consume-dropped", ("C12",), FM, "            source.consume()\n            m = re.match", "            m = re.match", "R-TERM-T1"),
    M("recursion-on-self", ("C12",), DT, "                transform_tree(child, transformer)", "                transform_tree(element, transformer)", "R-TERM-T2"),
    M("empty-line-prefix-unstripped", ("C12",), FM, "        empty_line_prefix = self._second_prefix.rstrip()", "        empty_line_prefix = self._second_prefix", "R-PREFIX-P4"),
    # ---- C17 / C18 resolver
    M("explicit-size-skipped", ("C17",), RS, "        if self._exceeds_max_size(path):\n            return False\n        return True", "        return True", "R-RESOLVE-V1"),
    M("toolignore-skipped", ("C17",), RS, "                if tool_ignore and tool_ignore.match_file(filename):\n                    continue\n", "", "R-RESOLVE-V1"),
    M("followlinks", ("C17",), RS, "os.walk(root)", "os.walk(root, followlinks=True)", "R-RESOLVE-V2"),
    M("prune-rebinds", ("C17",), RS, "            dirnames[:] = [", "            dirnames = [", "R-RESOLVE-V3"),
    M("sort-removed", ("C17",), RS, "        result.sort()\n", "", "R-RESOLVE-V4"),
    M("seen-check-dropped", ("C17",), RS, "if resolved not in seen and self._should_include_explicit(p):", "if self._should_include_explicit(p):", "R-RESOLVE-V4"),
    M("symlink-check-removed", ("C17",), RS, "                if filepath.is_symlink():\n", "                if False:\n", "R-RESOLVE-V2"),
    M("gitignore-always", ("C18",), RS, "            if self._config.respect_gitignore:\n                gitignore_specs = self._get_gitignore_chain(current, root)", "            if True:\n                gitignore_specs = self._get_gitignore_chain(current, root)", "R-GITIGNORE-G1"),
]

BENIGN: list[B] = [
    B("rename-local-heading", FM, "children_content", "heading_text", 99),
    B("rename-local-resolver", RS, "seen", "visited", 99),
    B("positional-to-keyword", RA, "        text, width, plaintext, semantic, cleanups, smartquotes, ellipses, list_spacing\n",
      "        text,\n        width=width,\n        plaintext=plaintext,\n        semantic=semantic,\n        cleanups=cleanups,\n        smartquotes=smartquotes,\n        ellipses=ellipses,\n        list_spacing=list_spacing,\n"),
    B("keyword-to-positional", MF, "    marko = flowmark_markdown(line_wrapper, list_spacing)", "    marko = flowmark_markdown(line_wrapper=line_wrapper, list_spacing=list_spacing)"),
    B("reorder-independent", FM, "        self._skip_next_blank_line = False\n        # After rendering a paragraph, don't suppress the next item break\n        # This ensures proper spacing before list items that follow paragraphs\n        self._suppress_item_break = False\n",
      "        self._suppress_item_break = False\n        self._skip_next_blank_line = False\n"),
    B("helper-for-consume", FM, '    def render_thematic_break(self, _element: block.ThematicBreak) -> str:\n        result = f"{self._prefix}* * *\\n"\n        self._prefix = self._second_prefix\n        return result',
      '    def _consume_prefix(self) -> None:\n        self._prefix = self._second_prefix\n\n    def render_thematic_break(self, _element: block.ThematicBreak) -> str:\n        result = f"{self._prefix}* * *\\n"\n        self._consume_prefix()\n        return result'),
    B("add-logging", RA, "    read_stdin = path == \"-\"\n", "    import logging\n\n    logging.getLogger(__name__).debug(\"reformat_file %s\", path)\n    read_stdin = path == \"-\"\n"),
    B("add-comments-docstrings", TW, "    lines: list[str] = []\n\n    # Handle width <= 0", "    lines: list[str] = []  # output lines\n\n    # NOTE: width <= 0 means no wrapping at all.\n    # Handle width <= 0"),
    B("kebab-entry-removed", "config.py", '    "files-max-size": "files_max_size",\n', ""),
    B("image-fstring", FM, '        template = "![{}]({}{})"\n        title = f" {_normalize_title_quotes(element.title)}" if element.title else ""\n        return template.format(\n            self.render_children(element), _render_link_dest(element.dest), title\n        )',
      '        title = f" {_normalize_title_quotes(element.title)}" if element.title else ""\n        return f"![{self.render_children(element)}]({_render_link_dest(element.dest)}{title})"'),
    B("elif-to-nested-if", FM, "        elif self._list_spacing == ListSpacing.tight:\n            # Only make tight if the list can be tight (no multi-paragraph items)\n            is_tight = self._can_be_tight(element)\n        else:  # loose\n            is_tight = False",
      "        else:\n            if self._list_spacing == ListSpacing.tight:\n                is_tight = self._can_be_tight(element)\n            else:\n                is_tight = False"),
    B("extract-common-kwargs-comment", RA, "    # Multiple files case\n", "    # Several inputs: each one is handled on its own below.\n"),
    B("type-hint-added", TW, "    words = splitter(text)\n", "    words: list[str] = splitter(text)\n"),
    B("early-return-style", "formats/frontmatter.py", "    if start_idx >= len(lines) or lines[start_idx].strip() != \"---\":\n        return \"\", text\n",
      "    if start_idx >= len(lines):\n        return \"\", text\n    if lines[start_idx].strip() != \"---\":\n        return \"\", text\n"),
    B("unused-import-and-constant", LW, "DEFAULT_MIN_LINE_LEN = 20\n", "DEFAULT_MIN_LINE_LEN = 20\n_UNUSED_DEBUG_FLAG = False\n"),
    B("walrus-free-rewrite", RS, "            p = Path(raw_path)\n", "            p = Path(raw_path)  # may be a file, a directory or a glob pattern\n"),
]
