"""Anchors of the rules that are *private* names in flowmark, found by what they are rather than by what they are called.

Public API names (reformat_text, fill_markdown, wrap_paragraph_lines, FileResolver.resolve, split_frontmatter, the pattern
tables ...) are fixed points a rule may ask for by name. Private helpers, private methods and private module constants get
renamed, moved and re-parameterised by ordinary refactorings; each finder here starts from a public fixed point and
identifies the private construct by its role (the function whose `.sub` runs over ATOMIC_CONSTRUCT_PATTERN, the method
whose body walks `os.walk`, the regex `normalize_adjacent_tags` substitutes with ...). The conventional name is tried
first only because it is cheap; the structural search is authoritative when the name is gone. A finder that cannot
identify its construct uniquely raises AnalysisError (exit 2): "cannot tell", never a verdict.
"""

from __future__ import annotations

import ast

from .cfg import walk_no_nested
from .loader import AnalysisError, ClassInfo, ConstInfo, FuncInfo

TW = "flowmark.linewrapping.text_wrapping"
LW = "flowmark.linewrapping.line_wrappers"
TH = "flowmark.linewrapping.tag_handling"
RESOLVER = "flowmark.file_resolver.resolver:FileResolver"


def _cache(ctx, key: str, compute):
    store = ctx.__dict__.setdefault("_anchor_cache", {})
    if key not in store:
        store[key] = compute()
        v = store[key]
        for x in (v if isinstance(v, tuple) else (v,)):
            if isinstance(x, FuncInfo):
                ctx.repo.func(x.qual)  # registers the anchor: the inlined view keeps it a function
    return store[key]


def _near(ctx, modname: str) -> set[str]:
    """The module and the modules of the package it imports names from: private helpers get moved into sibling modules
    (`_tag_fixups.py`) and imported back; they still belong to the module's machinery."""
    def find():
        out = {modname}
        m = ctx.repo.modules.get(modname)
        if m is not None:
            for st in ast.walk(m.tree):
                if isinstance(st, ast.ImportFrom) and st.module:
                    base = st.module if st.level == 0 else ".".join(modname.split(".")[:-st.level] + [st.module])
                    if base in ctx.repo.modules and base.startswith("flowmark."):
                        out.add(base)
        return tuple(sorted(out))
    return set(_cache(ctx, "near:" + modname, find))


def _module_funcs(ctx, modname: str) -> list[FuncInfo]:
    return [f for f in ctx.repo.functions.values() if f.module.name == modname and not isinstance(f.node, ast.Lambda)]


def _refs_const(ctx, f: FuncInfo, const_name: str) -> bool:
    for x in walk_no_nested(f.node):
        if isinstance(x, (ast.Name, ast.Attribute)):
            r = ctx.repo.resolve_expr(x, f.module, f)
            if isinstance(r, ConstInfo) and r.name == const_name:
                return True
    return False


def _one(kind: str, cands: list, what: str):
    uniq = list({id(c): c for c in cands}.values())
    if len(uniq) == 1:
        return uniq[0]
    names = sorted(getattr(c, "qual", str(c)) for c in uniq)
    raise AnalysisError(f"anchor vanished: {what} ({'none found' if not uniq else 'ambiguous: ' + ', '.join(names)})")


def _callees(ctx, f: FuncInfo, depth: int = 2, same_module: bool = False) -> list[FuncInfo]:
    out: list[FuncInfo] = []
    work = [(f, 0)]
    seen = {f.qual}
    while work:
        g, d = work.pop(0)
        for c in walk_no_nested(g.node):
            if not isinstance(c, ast.Call):
                continue
            # the call itself, and functions handed over as values (`map(self._get, dirs)`, `sorted(xs, key=f)`)
            refs = [c] + [ast.Call(func=a, args=[], keywords=[]) for a in list(c.args) + [k.value for k in c.keywords]
                          if isinstance(a, (ast.Name, ast.Attribute))]
            for rc in refs:
                t = ctx.prog.resolve_call(g, rc)
                if rc is not c and not (isinstance(t, list) and all(x.name != "__init__" for x in t)):
                    continue
                if isinstance(t, list) and len(t) == 1 and t[0].qual not in seen and not isinstance(t[0].node, ast.Lambda):
                    if same_module and t[0].module is not f.module:
                        continue
                    seen.add(t[0].qual)
                    out.append(t[0])
                    if d + 1 < depth:
                        work.append((t[0], d + 1))
    return out


# ----------------------------------------------------------------------------------------------- line wrapping
def hard_break_factory(ctx) -> FuncInfo:
    """The decorator factory that handles Markdown hard breaks: its wrapper calls the public split_markdown_hard_breaks."""
    def find():
        q = f"{LW}:_add_markdown_hard_break_handling"
        if q in ctx.repo.functions:
            return ctx.repo.functions[q]
        split = ctx.repo.func(f"{LW}:split_markdown_hard_breaks")
        cands = []
        for f in _module_funcs(ctx, LW):
            if f.parent is not None or f.cls is not None or f is split:
                continue
            inner = [g for g in ctx.repo.functions.values() if g.parent is f or (g.cls is not None and g.name == "__call__")]
            reach = [f] + [g for g in ctx.repo.functions.values() if g.parent is f]
            # callable class returned by the factory
            for r in ctx.prog.flow(f).cfg.returns():
                v = r.ast.value
                if isinstance(v, ast.Call):
                    ci = ctx.repo.resolve_expr(v.func, f.module, f) if isinstance(v.func, (ast.Name, ast.Attribute)) else None
                    if isinstance(ci, ClassInfo):
                        m = ctx.repo.find_method(ci, "__call__")
                        if m is not None:
                            reach.append(m)
            if any(ctx.prog.resolve_call(g, c) == [split] for g in reach for c in walk_no_nested(g.node) if isinstance(c, ast.Call)) \
                    and len(f.params) == 1:
                cands.append(f)
        return _one("function", cands, "the hard-break decorator factory of line_wrappers (a one-parameter function whose wrapper calls split_markdown_hard_breaks)")
    return _cache(ctx, "hard_break_factory", find)


def line_break_regex_qual(ctx) -> str:
    """The compiled pattern split_markdown_hard_breaks splits with."""
    def find():
        split = ctx.repo.func(f"{LW}:split_markdown_hard_breaks")
        for c in walk_no_nested(split.node):
            if isinstance(c, ast.Call) and isinstance(c.func, ast.Attribute) and c.func.attr == "split":
                r = ctx.repo.resolve_expr(c.func.value, split.module, split)
                if isinstance(r, ConstInfo):
                    return r.qual
        raise AnalysisError("anchor vanished: the hard-break pattern (receiver of .split in split_markdown_hard_breaks)")
    return _cache(ctx, "line_break_regex", find)


def splitter_call(ctx) -> FuncInfo:
    ci = ctx.repo.classes.get(f"{TW}:_HtmlMdWordSplitter")
    if ci is None:
        # the class the cached word-splitter factory instantiates
        get = ctx.repo.functions.get(f"{TW}:get_html_md_word_splitter")
        if get is not None:
            for c in walk_no_nested(get.node):
                if isinstance(c, ast.Call):
                    r = ctx.repo.resolve_expr(c.func, get.module, get) if isinstance(c.func, (ast.Name, ast.Attribute)) else None
                    if isinstance(r, ClassInfo):
                        ci = r
    if ci is None:
        raise AnalysisError("anchor vanished: the HTML/Markdown word splitter class")
    m = ci.methods.get("__call__")
    if m is None:
        raise AnalysisError("word splitter has no __call__")
    return m


def extract_and_restore(ctx) -> tuple[FuncInfo, FuncInfo]:
    """(extract, restore): the two helpers the word splitter brackets its whitespace split with. extract runs the one
    substitution over ATOMIC_CONSTRUCT_PATTERN; restore is the other package function the splitter calls, the one that
    replaces placeholders (str.replace / a regex substitution) and whose result the splitter returns."""
    def find():
        call = splitter_call(ctx)
        direct = []
        for c in walk_no_nested(call.node):
            if isinstance(c, ast.Call):
                t = ctx.prog.resolve_call(call, c)
                if isinstance(t, list) and len(t) == 1 and not isinstance(t[0].node, ast.Lambda) and t[0].cls is None:
                    direct.append((t[0], c))

        def has_sub(f: FuncInfo) -> bool:
            fs = [f] + _callees(ctx, f, 1) + [g for g in ctx.repo.functions.values() if g.parent is f]
            for g in fs:
                for x in walk_no_nested(g.node):
                    if isinstance(x, ast.Call) and isinstance(x.func, ast.Attribute) and x.func.attr in ("sub", "subn", "finditer"):
                        return True
            return False

        def mentions_combined(f: FuncInfo, c: ast.Call) -> bool:
            if _refs_const(ctx, f, "ATOMIC_CONSTRUCT_PATTERN") or any(_refs_const(ctx, g, "ATOMIC_CONSTRUCT_PATTERN") for g in ctx.repo.functions.values() if g.parent is f):
                return True
            for a in list(c.args) + [k.value for k in c.keywords]:
                r = ctx.repo.resolve_expr(a, call.module, call) if isinstance(a, (ast.Name, ast.Attribute)) else None
                if isinstance(r, ConstInfo) and r.name == "ATOMIC_CONSTRUCT_PATTERN":
                    return True
            return False

        ext = _one("function", [f for f, c in direct if has_sub(f) and mentions_combined(f, c)],
                   "the atomic-construct extraction helper of the word splitter (runs .sub over ATOMIC_CONSTRUCT_PATTERN)")
        rest = [f for f, c in direct if f is not ext and f.name not in ("normalize_adjacent_tags", "denormalize_adjacent_tags")
                and any(isinstance(x, ast.Call) and isinstance(x.func, ast.Attribute) and x.func.attr in ("replace", "sub")
                        for g in [f] + _callees(ctx, f, 1) for x in ast.walk(g.node))]
        res = _one("function", rest, "the placeholder-restoring helper of the word splitter")
        return ext, res
    return _cache(ctx, "extract_and_restore", find)


def map_index_of_extract(ctx) -> int:
    """Position of the placeholder map in the tuple the extraction helper returns (0 in (map, text), 1 in (text, map))."""
    ext, _res = extract_and_restore(ctx)
    flow = ctx.prog.flow(ext)
    for r in flow.cfg.returns():
        v = r.ast.value
        if isinstance(v, ast.Tuple):
            for i, e in enumerate(v.elts):
                if isinstance(e, (ast.Name, ast.Attribute)):
                    k = e.id if isinstance(e, ast.Name) else None
                    # the element that is a dict: annotated / initialised as one, or subscript-assigned by the callback
                    for n in ast.walk(ext.node):
                        if isinstance(n, ast.AnnAssign) and isinstance(n.target, ast.Name) and n.target.id == k and "dict" in ast.unparse(n.annotation).lower():
                            return i
                        if isinstance(n, ast.Assign) and len(n.targets) == 1 and isinstance(n.targets[0], ast.Name) and n.targets[0].id == k \
                                and isinstance(n.value, (ast.Dict, ast.DictComp)):
                            return i
                    if isinstance(e, ast.Attribute) and "map" in e.attr:
                        return i
    return 0


# ------------------------------------------------------------------------------------------------ tag handling
def closing_tag_predicate(ctx) -> FuncInfo | None:
    """The line predicate that recognises closing tags: tests startswith against `<open delimiter> /` spellings only."""
    def find():
        q = f"{TH}:_is_closing_tag"
        if q in ctx.repo.functions:
            return ctx.repo.functions[q]
        from .rules.atomic import _affix_tests, _records

        folder, recs, _t = _records(ctx)
        cands = []
        for f in [g for mn in sorted(_near(ctx, TH)) for g in _module_funcs(ctx, mn)]:
            if f.parent is not None or len(f.params) != 1:
                continue
            got = _affix_tests(ctx, folder, f, depth=3)
            if got["startswith"] and all(s.endswith("/") for s in got["startswith"]) and not got["endswith"]:
                cands.append(f)
        return cands[0] if len(cands) == 1 else None
    return _cache(ctx, "closing_tag_predicate", find)


def sub_pattern_of(ctx, func_qual: str) -> str:
    """qualname of the compiled module-level pattern whose .sub the given (public) function calls."""
    def find():
        f = ctx.repo.func(func_qual)
        for c in walk_no_nested(f.node):
            if isinstance(c, ast.Call) and isinstance(c.func, ast.Attribute) and c.func.attr in ("sub", "subn"):
                r = ctx.repo.resolve_expr(c.func.value, f.module, f)
                if isinstance(r, ConstInfo):
                    return r.qual
        raise AnalysisError(f"anchor vanished: the pattern {func_qual} substitutes with")
    return _cache(ctx, "sub_pattern:" + func_qual, find)


# ------------------------------------------------------------------------------------------------- typography
def apply_quotes_function(ctx) -> FuncInfo:
    """The function that runs QUOTE_PATTERN.sub over a tag-free stretch of text."""
    def find():
        mod = "flowmark.typography.smartquotes"
        q = f"{mod}:_apply_smart_quotes_to_text"
        if q in ctx.repo.functions:
            return ctx.repo.functions[q]
        cands = []
        for f in _module_funcs(ctx, mod):
            for c in walk_no_nested(f.node):
                if isinstance(c, ast.Call) and isinstance(c.func, ast.Attribute) and c.func.attr in ("sub", "subn"):
                    r = ctx.repo.resolve_expr(c.func.value, f.module, f)
                    if isinstance(r, ConstInfo) and r.name == "QUOTE_PATTERN":
                        cands.append(f)
        return _one("function", cands, "the function of smartquotes that substitutes over QUOTE_PATTERN")
    return _cache(ctx, "apply_quotes", find)


# -------------------------------------------------------------------------------------------------- transforms
def collect_segments_function(ctx) -> FuncInfo:
    """The recursive collector of (text, node-or-None) segments used by rewrite_text_across_inlines."""
    def find():
        q = "flowmark.transforms.doc_transforms:_collect_inline_segments"
        if q in ctx.repo.functions:
            return ctx.repo.functions[q]
        cands = []
        for f in ctx.repo.functions.values():
            if not f.module.name.startswith("flowmark.transforms") or isinstance(f.node, ast.Lambda) or f.parent is not None:
                continue
            two_tuples = [x for x in ast.walk(f.node) if isinstance(x, ast.Tuple) and len(x.elts) == 2 and isinstance(x.ctx, ast.Load)
                          and isinstance(x.elts[1], ast.Constant) and x.elts[1].value is None]
            raw = any(isinstance(x, ast.Call) and isinstance(x.func, ast.Name) and x.func.id == "isinstance" and "RawText" in ast.unparse(x)
                      for x in ast.walk(f.node))
            if two_tuples and raw:
                cands.append(f)
        return _one("function", cands, "the inline-segment collector of doc_transforms (produces (text, None) / (text, RawText node) pairs)")
    return _cache(ctx, "collect_segments", find)


# ------------------------------------------------------------------------------------------------ config / cli
def parse_config_function(ctx) -> FuncInfo | None:
    """The function that turns the TOML dict into a FlowmarkConfig (called from the public load_config)."""
    def find():
        q = "flowmark.config:_parse_config_data"
        if q in ctx.repo.functions:
            return ctx.repo.functions[q]
        lc = ctx.repo.functions.get("flowmark.config:load_config")
        if lc is None:
            return None
        cands = []
        for f in _callees(ctx, lc, 2, same_module=True):
            for c in walk_no_nested(f.node):
                if isinstance(c, ast.Call) and any(k.arg is None for k in c.keywords):
                    r = ctx.repo.resolve_expr(c.func, f.module, f) if isinstance(c.func, (ast.Name, ast.Attribute)) else None
                    if isinstance(r, ClassInfo) and r.name == "FlowmarkConfig":
                        cands.append(f)
        return cands[0] if len({c.qual for c in cands}) == 1 else None
    return _cache(ctx, "parse_config", find)


def kebab_table(ctx) -> ConstInfo:
    """The module-level dict of config.py that maps kebab-case TOML keys to field names."""
    def find():
        mod = ctx.repo.module("flowmark.config")
        d = mod.defs.get("_KEBAB_TO_SNAKE")
        if isinstance(d, ConstInfo) and isinstance(d.value, ast.Dict):
            return d
        cands = []
        for name, d in mod.defs.items():
            if isinstance(d, ConstInfo) and isinstance(d.value, ast.Dict) and d.value.keys and all(
                    isinstance(k, ast.Constant) and isinstance(k.value, str) and isinstance(v, ast.Constant) and isinstance(v.value, str)
                    for k, v in zip(d.value.keys, d.value.values)) and any("-" in k.value for k in d.value.keys):
                cands.append(d)
        return _one("constant", cands, "the kebab-case -> field-name table of flowmark.config")
    return _cache(ctx, "kebab_table", find)


def valid_fields_const(ctx, parse: FuncInfo | None) -> ConstInfo | None:
    """The set of accepted config field names: the module constant the parse function tests keys against."""
    def find():
        mod = ctx.repo.module("flowmark.config")
        d = mod.defs.get("_VALID_FIELDS")
        if isinstance(d, ConstInfo):
            return d
        fs = [parse] + _callees(ctx, parse, 2, same_module=True) if parse is not None else []
        for f in fs:
            for x in walk_no_nested(f.node):
                if isinstance(x, ast.Compare) and len(x.ops) == 1 and isinstance(x.ops[0], (ast.In, ast.NotIn)) and isinstance(x.comparators[0], ast.Name):
                    r = ctx.repo.lookup(x.comparators[0].id, f.module, f)
                    if isinstance(r, ConstInfo) and r.value is not None and "fields(" in ast.unparse(r.value):
                        return r
        return None
    return _cache(ctx, "valid_fields", find)


def resolve_files_function(ctx) -> FuncInfo | None:
    """The cli function that builds the FileResolver and expands the inputs."""
    def find():
        q = "flowmark.cli:_resolve_files"
        if q in ctx.repo.functions:
            return ctx.repo.functions[q]
        cands = []
        for f in _module_funcs(ctx, "flowmark.cli"):
            for c in walk_no_nested(f.node):
                if isinstance(c, ast.Call):
                    r = ctx.repo.resolve_expr(c.func, f.module, f) if isinstance(c.func, (ast.Name, ast.Attribute)) else None
                    if isinstance(r, ClassInfo) and r.name == "FileResolverConfig" and f.name != "main":
                        cands.append(f)
        return cands[0] if len({c.qual for c in cands}) == 1 else None
    return _cache(ctx, "resolve_files", find)


# ---------------------------------------------------------------------------------------------- file resolver
def resolver_method(ctx, role: str) -> FuncInfo:
    """Methods of FileResolver by role: walk (the os.walk traversal), glob (glob expansion), explicit (filter for explicitly
    named files), size (the size-limit test), dirprune (the directory-pruning predicate used by the walk)."""
    conventional = {"walk": "_walk_directory", "glob": "_expand_glob", "explicit": "_should_include_explicit", "size": "_exceeds_max_size",
                    "dirprune": "_is_dir_excluded", "resolve": "resolve"}

    def find():
        q = f"{RESOLVER}.{conventional[role]}"
        if q in ctx.repo.functions:
            return ctx.repo.functions[q]
        cls = ctx.repo.cls(RESOLVER)
        methods = [m for m in cls.methods.values() if not isinstance(m.node, ast.Lambda)]
        res = ctx.repo.func(f"{RESOLVER}.resolve")

        def calls_attr(m: FuncInfo, names: tuple[str, ...]) -> bool:
            return any(isinstance(c, ast.Call) and isinstance(c.func, ast.Attribute) and c.func.attr in names for c in walk_no_nested(m.node))

        if role == "walk":
            c = [m for m in methods if any(isinstance(x, ast.For) and any(isinstance(y, ast.Attribute) and y.attr == "walk" for y in ast.walk(x.iter))
                                           for x in walk_no_nested(m.node))]
            return _one("method", c, "the os.walk traversal method of FileResolver")
        if role == "size":
            c = [m for m in methods if any(isinstance(x, ast.Attribute) and x.attr == "st_size" for x in walk_no_nested(m.node))
                 and any(isinstance(x, ast.Attribute) and x.attr == "files_max_size" for x in walk_no_nested(m.node))]
            if not c:  # delegating wrapper: reads files_max_size and hands it to a helper that reads st_size
                c = [m for m in methods if any(isinstance(x, ast.Attribute) and x.attr == "files_max_size" for x in walk_no_nested(m.node))
                     and len(m.params) == 2 and m is not res]
            return _one("method", c, "the size-limit test of FileResolver (reads files_max_size and st_size)")
        if role == "glob":
            c = [m for m in methods if m is not res and (calls_attr(m, ("glob", "rglob", "iglob")))]
            return _one("method", c, "the glob-expansion method of FileResolver")
        if role == "explicit":
            c = [m for m in methods if m is not res and any(isinstance(x, ast.Attribute) and x.attr == "force_exclude" for x in walk_no_nested(m.node))
                 and not any(isinstance(x, (ast.Yield, ast.YieldFrom)) for x in walk_no_nested(m.node))]
            c = [m for m in c if any(ctx.prog.resolve_call(res, cc) == [m] for cc in ast.walk(res.node) if isinstance(cc, ast.Call))] or c
            return _one("method", c, "the filter applied to explicitly named files (reads force_exclude, called from resolve)")
        if role == "dirprune":
            walk = resolver_method(ctx, "walk")
            c = []
            for x in walk_no_nested(walk.node):
                if isinstance(x, ast.Assign) and isinstance(x.targets[0], ast.Subscript) and isinstance(x.value, (ast.ListComp, ast.Call)):
                    for cc in ast.walk(x.value):
                        if isinstance(cc, ast.Call):
                            t = ctx.prog.resolve_call(walk, cc)
                            if isinstance(t, list) and len(t) == 1 and t[0].cls is cls:
                                c.append(t[0])
            # through a helper that computes the kept sub-directories
            c2 = []
            for m in c:
                inner = [t for cc in ast.walk(m.node) if isinstance(cc, ast.Call) for t in ([ctx.prog.resolve_call(m, cc)] if True else [])]
                c2.append(m)
            return _one("method", c, "the directory-pruning predicate used by the walk (in the dirnames[:] = [...] filter)")
        raise AnalysisError(f"unknown resolver role {role}")
    return _cache(ctx, "resolver:" + role, find)


# ------------------------------------------------------------------------------- what a spec-valued thing holds
_LOADERS = {"flowmark.file_resolver.gitignore:load_gitignore": "gitignore", "flowmark.file_resolver.gitignore:load_tool_ignore": "toolignore"}


def loader_kinds(ctx, qual: str) -> set[str]:
    """{"gitignore"} / {"toolignore"} when the repo function `qual` is, or (transitively) calls, one of the two public
    loaders of flowmark.file_resolver.gitignore - however the getter around the loader is called."""
    def find():
        out: set[str] = set()
        if qual in _LOADERS:
            out.add(_LOADERS[qual])
        f = ctx.repo.functions.get(qual)
        if f is not None and not isinstance(f.node, ast.Lambda):
            for g in _callees(ctx, f, 3):
                if g.qual in _LOADERS:
                    out.add(_LOADERS[g.qual])
        return frozenset(out)
    return set(_cache(ctx, "loader_kinds:" + qual, find))


def resolver_attr_kinds(ctx) -> dict[str, str]:
    """attribute of the resolver object -> what it holds: "include" / "exclude" (a spec compiled in __init__ from the
    config's include / exclude patterns), "gitignore" / "toolignore" (a memo table filled from the loaders)."""
    def find():
        cls = ctx.repo.cls(RESOLVER)
        out: dict[str, str] = {}
        for m in cls.methods.values():
            if isinstance(m.node, ast.Lambda) or not m.params:
                continue
            selfn = m.params[0]
            flow = ctx.prog.flow(m)
            for n in flow.cfg.nodes:
                st = n.ast
                if n.kind != "stmt" or not isinstance(st, (ast.Assign, ast.AnnAssign)) or getattr(st, "value", None) is None:
                    continue
                tgt = st.targets[0] if isinstance(st, ast.Assign) else st.target
                table = False
                if isinstance(tgt, ast.Subscript):
                    tgt, table = tgt.value, True
                if not (isinstance(tgt, ast.Attribute) and isinstance(tgt.value, ast.Name) and tgt.value.id == selfn):
                    continue
                sl = ctx.prog.slice(m, st.value, n)
                kinds: set[str] = set()
                for q in sl.callees():
                    kinds |= loader_kinds(ctx, q)
                if not table:
                    attrs = sl.attrs()
                    if any(a.rpartition(".")[2] in ("effective_include", "include", "extend_include") for a in attrs):
                        kinds.add("include")
                    if any(a.rpartition(".")[2] in ("effective_exclude", "exclude", "extend_exclude") for a in attrs):
                        kinds.add("exclude")
                if len(kinds) == 1:
                    out.setdefault(tgt.attr, next(iter(kinds)))
        return out
    return _cache(ctx, "resolver_attr_kinds", find)


# ------------------------------------------------------------------------------------- tag handling (private passes)
def _handler_closure(ctx) -> FuncInfo:
    from .rules.common import factory_closure

    return factory_closure(ctx.prog, ctx.repo.func(f"{TH}:add_tag_newline_handling"))


def multiline_tag_fix(ctx) -> FuncInfo:
    """The text -> text post-pass that puts `%}{% /tag %}` on its own line: the one-parameter function reachable from the
    tag newline handler that searches each line with a module-level compiled pattern."""
    def find():
        q = f"{TH}:_fix_multiline_opening_tag_with_closing"
        if q in ctx.repo.functions:
            return ctx.repo.functions[q]
        w = _handler_closure(ctx)
        public = {"normalize_adjacent_tags", "denormalize_adjacent_tags"}
        cands = []
        for f in _callees(ctx, w, 2):
            if f.module.name not in _near(ctx, TH) or f.name in public or len(f.params) != 1:
                continue
            for c in walk_no_nested(f.node):
                if isinstance(c, ast.Call) and isinstance(c.func, ast.Attribute) and c.func.attr in ("search", "match", "finditer") \
                        and isinstance(ctx.repo.resolve_expr(c.func.value, f.module, f), ConstInfo):
                    cands.append(f)
        return _one("function", cands, "the multi-line opening tag fix (post-pass of the tag newline handler that searches lines with a compiled pattern)")
    return _cache(ctx, "multiline_tag_fix", find)


def closing_tag_spacing_fix(ctx) -> FuncInfo:
    """The text -> text post-pass that un-indents closing tags: the one-parameter function called from the tag newline
    handler that consults the closing-tag predicate."""
    def find():
        q = f"{TH}:_fix_closing_tag_spacing"
        if q in ctx.repo.functions:
            return ctx.repo.functions[q]
        w = _handler_closure(ctx)
        pred = closing_tag_predicate(ctx)
        cands = []
        for f in _callees(ctx, w, 1):
            if f.module.name not in _near(ctx, TH) or len(f.params) != 1 or f is pred:
                continue
            if pred is not None and pred in _callees(ctx, f, 1):
                cands.append(f)
        return _one("function", cands, "the closing-tag spacing fix (post-pass of the tag newline handler that uses the closing-tag predicate)")
    return _cache(ctx, "closing_tag_spacing_fix", find)


def tag_only_line_predicate(ctx) -> FuncInfo:
    """The predicate preprocess_tag_block_spacing uses for `this line consists of tags only`: tests the line's start against
    the tag openers and its end against the tag closers."""
    def find():
        q = f"{TH}:_is_tag_only_line"
        if q in ctx.repo.functions:
            return ctx.repo.functions[q]
        from .rules.atomic import _affix_tests, _records

        folder, recs, _t = _records(ctx)
        opens = {str(r.fields["open_delim"]) for n, r in recs.items() if n.startswith("SINGLE_") and r.fields.get("open_delim")}
        closes = {str(r.fields["close_delim"]) for n, r in recs.items() if n.startswith("SINGLE_") and r.fields.get("close_delim")}
        pp = ctx.repo.func(f"{TH}:preprocess_tag_block_spacing")
        cands = []
        for f in _callees(ctx, pp, 1):
            if f.module.name not in _near(ctx, TH) or len(f.params) != 1:
                continue
            got = _affix_tests(ctx, folder, f)
            if got["startswith"] & opens and got["endswith"] & closes:
                cands.append(f)
        return _one("function", cands, "the tag-only-line predicate of preprocess_tag_block_spacing")
    return _cache(ctx, "tag_only_line_predicate", find)
